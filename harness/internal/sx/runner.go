package sx

import (
	"context"
	"fmt"
	"math/rand"
	"os"
	"sort"
	"strconv"
	"sync"
	"sync/atomic"
	"time"

	bleve "github.com/blevesearch/bleve/v2"
	"github.com/blevesearch/bleve/v2/document"
	"github.com/blevesearch/bleve/v2/index/scorch"
	index "github.com/blevesearch/bleve_index_api"
)

// Run is one in-process run of a workload on a disk scorch index with the
// recorder installed, seeded schedule perturbation at the hook points, a
// continuous sampler of the on-disk state and optional readers / copies.
type Run struct {
	Dir      string // index directory (bleve level); scorch lives in Dir/store
	WL       Workload
	Seed     int64
	Rec      *Recorder
	Idx      bleve.Index
	Sc       *scorch.Scorch
	Perturb  float64       // probability of a pause at a perturbation point (0 = none)
	Think    time.Duration // max random pause of a writer between two batches (lets persister/purger catch up)
	MaxPause time.Duration

	rng   *rand.Rand
	rngMu sync.Mutex

	readersMu sync.Mutex
	readers   map[int]*heldReader
	nextRdr   int

	stopSampler chan struct{}
	samplerDone chan struct{}
	Samples     int64
	submitMu    sync.Mutex
	nextB       int
	AsyncErrs   []string
	Keep        int // numSnapshotsToKeep of the index (for the quiescent sample)

	Holds   []HoldRule // schedule rules: park a goroutine at a hook point until another process has made progress
	holdsMu sync.Mutex
	parked  map[string]int // hook point -> number of times a goroutine was parked there by a hold rule

	copyMu   sync.Mutex
	copyHeld map[int][]string // copy reader epoch -> file names of its file segments
}

type heldReader struct {
	r    index.IndexReader
	snap scorch.VerifSnap
}

// points at which a pause widens a window another goroutine can race into.
// Points inside rootLock / bolt transactions are excluded (a pause there only
// serialises everybody).
var perturbPoints = map[string]bool{
	"batch.send": true, "batch.applied": true,
	"persist.begin": true, "persist.filesWritten": true, "persist.beforeIntro": true, "persist.introduced": true,
	"persist.beforeCommit": true, "persist.committed": true, "persist.synced": true, "persist.unmarked": true,
	"persist.done": true, "persist.acked": true,
	"purge.begin": true, "purge.bolt.plan": true, "purge.bolt.done": true, "purge.end": true,
	"merge.plan": true, "merge.marked": true, "merge.written": true, "merge.beforeIntro": true,
	"merge.introduced": true, "merge.cleanup": true, "merge.done": true,
	"memmerge.marked": true, "memmerge.written": true, "memmerge.beforeIntro": true, "memmerge.introduced": true,
	"memmerge.equiv": true, "copy.file": true, "copy.memfile": true, "persist.file": true, "snap.release": true,
	// a reader gets its snapshot: a pause here widens the gap between two snapshots
	// taken by ONE read operation (which then no longer observes one state)
	"reader.open": true,
}

// HoldRule parks the goroutine that reaches Point (with probability Prob) until
// Count more events named Until have been recorded, or Timeout expires. The
// rules are the schedules TLC explores in ScorchDisk.tla that a free-running
// execution almost never takes (e.g. "a purge round runs between *merged file
// written* and *merge introduced*").
type HoldRule struct {
	Point   string
	Until   string
	Count   int
	Timeout time.Duration
	Prob    float64
	Once    bool // the rule fires at most once
	used    bool
}

// RemoveHold drops the rules of a point; AddHold appends one.
func (r *Run) RemoveHold(point string) {
	r.holdsMu.Lock()
	var keep []HoldRule
	for _, h := range r.Holds {
		if h.Point != point {
			keep = append(keep, h)
		}
	}
	r.Holds = keep
	r.holdsMu.Unlock()
}

func (r *Run) AddHold(h HoldRule) {
	r.holdsMu.Lock()
	r.Holds = append(r.Holds, h)
	r.holdsMu.Unlock()
}

// Parked reports how often a hold rule has parked a goroutine at point.
func (r *Run) Parked(point string) int {
	r.holdsMu.Lock()
	defer r.holdsMu.Unlock()
	return r.parked[point]
}

// WaitParked waits until Parked(point) >= n.
func (r *Run) WaitParked(point string, n int, timeout time.Duration) bool {
	deadline := time.Now().Add(timeout)
	for time.Now().Before(deadline) {
		if r.Parked(point) >= n {
			return true
		}
		time.Sleep(200 * time.Microsecond)
	}
	return false
}

// SetHolds replaces the hold rules (safe while the index is running).
func (r *Run) SetHolds(h []HoldRule) {
	r.holdsMu.Lock()
	r.Holds = append([]HoldRule(nil), h...)
	r.holdsMu.Unlock()
}

// DefaultHolds are the races of the persist / merge / purge / copy pipeline.
var DefaultHolds = []HoldRule{
	{Point: "merge.written", Until: "PurgeEnd", Count: 1, Timeout: 40 * time.Millisecond, Prob: 0.5},
	{Point: "merge.beforeIntro", Until: "PurgeEnd", Count: 1, Timeout: 40 * time.Millisecond, Prob: 0.4},
	{Point: "merge.introduced", Until: "PurgeEnd", Count: 1, Timeout: 40 * time.Millisecond, Prob: 0.5},
	{Point: "merge.cleanup", Until: "PurgeEnd", Count: 1, Timeout: 20 * time.Millisecond, Prob: 0.2},
	{Point: "merge.plan", Until: "IntroSegment", Count: 2, Timeout: 20 * time.Millisecond, Prob: 0.4},
	{Point: "copy.file", Until: "PurgeEnd", Count: 2, Timeout: 60 * time.Millisecond, Prob: 0.6},
	{Point: "copy.memfile", Until: "PurgeEnd", Count: 1, Timeout: 40 * time.Millisecond, Prob: 0.4},
	{Point: "persist.committed", Until: "MergeCleanup", Count: 1, Timeout: 15 * time.Millisecond, Prob: 0.2},
	{Point: "persist.filesWritten", Until: "IntroMerge", Count: 1, Timeout: 15 * time.Millisecond, Prob: 0.3},
	{Point: "persist.beforeIntro", Until: "IntroSegment", Count: 1, Timeout: 10 * time.Millisecond, Prob: 0.3},
	{Point: "memmerge.beforeIntro", Until: "IntroSegment", Count: 1, Timeout: 10 * time.Millisecond, Prob: 0.4},
	{Point: "batch.send", Until: "IntroSegment", Count: 1, Timeout: 5 * time.Millisecond, Prob: 0.3},
	{Point: "purge.bolt.plan", Until: "Eligible", Count: 1, Timeout: 10 * time.Millisecond, Prob: 0.4},
	{Point: "purge.bolt.done", Until: "IntroSegment", Count: 1, Timeout: 5 * time.Millisecond, Prob: 0.2},
}

func (r *Run) chance(p float64) bool {
	r.rngMu.Lock()
	defer r.rngMu.Unlock()
	return r.rng.Float64() < p
}
func (r *Run) intn(n int) int {
	r.rngMu.Lock()
	defer r.rngMu.Unlock()
	return r.rng.Intn(n)
}

// Start creates the index and installs recorder, perturbation and sampler.
func Start(dir string, wl Workload, seed int64, perturb float64) (*Run, error) {
	r := &Run{Dir: dir, WL: wl, Seed: seed, Perturb: perturb, MaxPause: 3 * time.Millisecond,
		rng: rand.New(rand.NewSource(seed)), readers: map[int]*heldReader{}}
	r.Rec = NewRecorder(StoreDir(dir))
	r.Rec.Gate = func(point string, hit int, s *scorch.Scorch) {
		r.holdsMu.Lock()
		var hit1 *HoldRule
		for i := range r.Holds {
			h := &r.Holds[i]
			if h.Point == point && !h.used && r.chance(h.Prob) {
				if h.Once {
					h.used = true
				}
				hc := *h
				hit1 = &hc
				break
			}
		}
		if hit1 != nil {
			if r.parked == nil {
				r.parked = map[string]int{}
			}
			r.parked[point]++
		}
		r.holdsMu.Unlock()
		if hit1 != nil {
			r.Rec.WaitEvent(hit1.Until, hit1.Count, hit1.Timeout)
			return
		}
		if r.Perturb > 0 && perturbPoints[point] && r.chance(r.Perturb) {
			time.Sleep(time.Duration(1+r.intn(int(r.MaxPause/time.Microsecond))) * time.Microsecond)
		}
	}
	r.copyHeld = map[int][]string{}
	r.Keep = 1
	if k, ok := wl.KVConfig["numSnapshotsToKeep"]; ok {
		switch x := k.(type) {
		case int:
			r.Keep = x
		case float64:
			r.Keep = int(x)
		}
	}
	r.Rec.After = func(point string, s *scorch.Scorch, ev Event) {
		if point == "copy.open" || point == "copy.close" {
			sn, _ := ev["snap"].(map[string]any)
			ep, _ := sn["epoch"].(int)
			r.copyMu.Lock()
			if point == "copy.close" {
				delete(r.copyHeld, ep)
			} else {
				fs := []string{}
				if segs, ok := sn["segs"].([]any); ok {
					for _, sg := range segs {
						if f, _ := sg.(map[string]any)["file"].(string); f != "" {
							fs = append(fs, f)
						}
					}
				}
				r.copyHeld[ep] = fs
			}
			r.copyMu.Unlock()
		}
	}
	r.Rec.Install()
	r.Rec.Emit("Reset", map[string]any{"safe": wl.Safe})
	idx, err := OpenWorkload(dir, wl)
	if err != nil {
		Uninstall()
		return nil, err
	}
	r.Idx = idx
	adv, _ := idx.Advanced()
	r.Sc, _ = adv.(*scorch.Scorch)
	r.Rec.Emit("Ready", nil)
	return r, nil
}

// Submit runs one batch (numbered at submission, under a lock so that Submit
// events appear in numbering order).
func (r *Run) Submit(bs BatchSpec) (int, error) {
	r.submitMu.Lock()
	r.nextB++
	bs.B = r.nextB
	r.Rec.Emit("Submit", map[string]any{"b": bs.B, "w": bs.W, "puts": strsAny(bs.Puts), "dels": strsAny(bs.Dels)})
	r.submitMu.Unlock()
	bn := bs.B
	batch, err := BuildBatch(r.Idx, bs, func(err error) {
		if err == nil {
			r.Rec.Emit("Callback", map[string]any{"b": bn})
		}
	})
	if err != nil {
		return bn, err
	}
	if err := r.Idx.Batch(batch); err != nil {
		r.Rec.Emit("ReturnErr", map[string]any{"b": bn, "err": err.Error()})
		return bn, err
	}
	r.Rec.Emit("Return", map[string]any{"b": bn})
	return bn, nil
}

// SubmitDirect hands the batch to the scorch index itself (the index.Index API,
// public as scorch.NewScorch / Batch / Close), bypassing bleve's indexImpl and
// its lock: the only way a Close can arrive while safe batches are waiting for
// their persistence.
func (r *Run) SubmitDirect(bs BatchSpec) (int, error) {
	r.submitMu.Lock()
	r.nextB++
	bs.B = r.nextB
	r.Rec.Emit("Submit", map[string]any{"b": bs.B, "w": bs.W, "puts": strsAny(bs.Puts), "dels": strsAny(bs.Dels)})
	r.submitMu.Unlock()
	bn := bs.B
	ib := index.NewBatch()
	for _, id := range bs.Puts {
		doc := document.NewDocument(id)
		if err := r.Idx.Mapping().MapDocument(doc, DocVer(bs.B)); err != nil {
			return bn, err
		}
		ib.Update(doc)
	}
	for _, id := range bs.Dels {
		ib.Delete(id)
	}
	ib.SetInternal([]byte("seq"), []byte("i"+strconv.Itoa(bs.B)))
	if err := r.Sc.Batch(ib); err != nil {
		r.Rec.Emit("ReturnErr", map[string]any{"b": bn, "err": err.Error()})
		return bn, err
	}
	r.Rec.Emit("Return", map[string]any{"b": bn})
	return bn, nil
}

func strsAny(ss []string) []any {
	out := []any{}
	for _, s := range ss {
		out = append(out, s)
	}
	return out
}

// RunWriters executes the workload's batches with one goroutine per writer
// and returns when all are done.
func (r *Run) RunWriters() error {
	var wg sync.WaitGroup
	var firstErr atomic.Value
	for w := 1; w <= r.WL.Writers; w++ {
		wg.Add(1)
		go func(w int) {
			defer wg.Done()
			for _, bs := range r.WL.Batches {
				if bs.W != w {
					continue
				}
				if _, err := r.Submit(bs); err != nil {
					firstErr.Store(err)
					return
				}
				if r.Think > 0 {
					time.Sleep(time.Duration(r.intn(int(r.Think/time.Microsecond)+1)) * time.Microsecond)
				}
			}
		}(w)
	}
	wg.Wait()
	if e, ok := firstErr.Load().(error); ok {
		return e
	}
	return nil
}

// ---- readers

// OpenReader obtains a low-level reader (the current root snapshot) and keeps it.
func (r *Run) OpenReader() (int, error) {
	r.readersMu.Lock()
	r.nextRdr++
	id := r.nextRdr
	r.readersMu.Unlock()
	// logged BEFORE the snapshot is taken: batches that return between taking the
	// snapshot and logging must not be demanded of this reader
	r.Rec.Emit("ReaderOpenBegin", map[string]any{"r": id})
	rd, err := r.Sc.Reader()
	if err != nil {
		return 0, err
	}
	is, ok := rd.(*scorch.IndexSnapshot)
	if !ok {
		_ = rd.Close()
		return 0, fmt.Errorf("reader is %T", rd)
	}
	h := &heldReader{r: rd, snap: scorch.VerifSnapshot(is)}
	r.readersMu.Lock()
	r.readers[id] = h
	r.readersMu.Unlock()
	r.Rec.Emit("ReaderOpen", map[string]any{"r": id, "snap": snapJSON(h.snap)})
	return id, nil
}

func (r *Run) Reader(id int) index.IndexReader {
	r.readersMu.Lock()
	defer r.readersMu.Unlock()
	if h := r.readers[id]; h != nil {
		return h.r
	}
	return nil
}

func (r *Run) CloseReader(id int) {
	r.readersMu.Lock()
	h := r.readers[id]
	delete(r.readers, id)
	r.readersMu.Unlock()
	if h != nil {
		r.Rec.Emit("ReaderClose", map[string]any{"r": id})
		_ = h.r.Close()
	}
}

func (r *Run) heldReaderFiles() [][]string {
	r.readersMu.Lock()
	defer r.readersMu.Unlock()
	ids := []int{}
	for id := range r.readers {
		ids = append(ids, id)
	}
	sort.Ints(ids)
	out := [][]string{}
	for _, id := range ids {
		fs := []string{}
		for _, s := range r.readers[id].snap.Segs {
			if s.File != "" {
				fs = append(fs, s.File)
			}
		}
		out = append(out, fs)
	}
	return out
}

// ---- sampling the on-disk state (C12)

// Sample takes one consistent observation of "which files are needed" versus
// "which files exist". Bolt is read before and after the directory listing and
// only epochs present (with the same files) in BOTH reads are reported: such an
// epoch was in the metadata store during the whole listing, so correct code
// (bolt snapshot removed BEFORE its files; files written BEFORE the commit
// naming them) must show all its files in the listing. The same for the root
// (same epoch before and after) and for reader-held snapshots and scheduled
// copies (held during the whole listing).
func (r *Run) Sample(tag string) Event {
	if r.Sc == nil {
		return nil
	}
	b1, err1 := r.Sc.VerifBoltFiles()
	st1 := r.Sc.VerifStateNow()
	root1 := rootFiles(r.Sc)
	rd1 := r.heldReaderFiles()
	ch1 := r.copyHeldFiles()
	disk := ZapFiles(StoreDir(r.Dir))
	ch2 := r.copyHeldFiles()
	rd2 := r.heldReaderFiles()
	root2 := rootFiles(r.Sc)
	st2 := r.Sc.VerifStateNow()
	b2, err2 := r.Sc.VerifBoltFiles()
	if err1 != nil || err2 != nil {
		return nil
	}
	bolt := []any{}
	eps := []int{}
	for e := range b1 {
		eps = append(eps, int(e))
	}
	sort.Ints(eps)
	for _, e := range eps {
		f1, f2 := b1[uint64(e)], b2[uint64(e)]
		if _, ok := b2[uint64(e)]; ok && fmt.Sprint(f1) == fmt.Sprint(f2) {
			bolt = append(bolt, map[string]any{"epoch": e, "files": strsAny(f1)})
		}
	}
	rootF := []any{}
	rootStable := root1.epoch == root2.epoch
	if rootStable {
		rootF = strsAny(root1.files)
	}
	readers := []any{}
	if fmt.Sprint(rd1) == fmt.Sprint(rd2) {
		for _, fs := range rd1 {
			readers = append(readers, strsAny(fs))
		}
	}
	copyF := []any{}
	for f, n := range st1.CopyScheduled {
		if n > 0 && st2.CopyScheduled[f] > 0 {
			copyF = append(copyF, f)
		}
	}
	inel := []any{}
	in2 := map[string]bool{}
	for _, f := range st2.Ineligible {
		in2[f] = true
	}
	for _, f := range st1.Ineligible {
		if in2[f] {
			inel = append(inel, f)
		}
	}
	// unions of the two reads (for "is this file protected by SOMETHING" questions)
	anyNamed := map[string]bool{}
	for _, b := range []map[uint64][]string{b1, b2} {
		for _, fs := range b {
			for _, f := range fs {
				anyNamed[f] = true
			}
		}
	}
	namedAny := []string{}
	for f := range anyNamed {
		namedAny = append(namedAny, f)
	}
	sort.Strings(namedAny)
	anyInel := map[string]bool{}
	for _, f := range st1.Ineligible {
		anyInel[f] = true
	}
	for _, f := range st2.Ineligible {
		anyInel[f] = true
	}
	inelAny := []string{}
	for f := range anyInel {
		inelAny = append(inelAny, f)
	}
	sort.Strings(inelAny)
	atomic.AddInt64(&r.Samples, 1)
	return r.Rec.Emit("Sample", map[string]any{"tag": tag, "disk": strsAny(disk), "bolt": bolt,
		"namedAny": strsAny(namedAny), "inelAny": strsAny(inelAny),
		"root": rootF, "rootEpoch": int(root1.epoch), "rootStable": rootStable,
		"readers": readers, "copy": copyF, "copyheld": strsAny(intersect(ch1, ch2)), "inel": inel, "keep": r.Keep})
}

func (r *Run) copyHeldFiles() []string {
	r.copyMu.Lock()
	defer r.copyMu.Unlock()
	var out []string
	for _, fs := range r.copyHeld {
		out = append(out, fs...)
	}
	sort.Strings(out)
	return out
}

func intersect(a, b []string) []string {
	in := map[string]bool{}
	for _, x := range b {
		in[x] = true
	}
	out := []string{}
	for _, x := range a {
		if in[x] {
			out = append(out, x)
		}
	}
	return out
}

type rootInfo struct {
	epoch uint64
	files []string
}

func rootFiles(sc *scorch.Scorch) rootInfo {
	rd, err := sc.Reader()
	if err != nil || rd == nil {
		return rootInfo{}
	}
	defer rd.Close()
	is, ok := rd.(*scorch.IndexSnapshot)
	if !ok || is == nil {
		return rootInfo{}
	}
	v := scorch.VerifSnapshot(is)
	ri := rootInfo{epoch: v.Epoch}
	for _, s := range v.Segs {
		if s.File != "" {
			ri.files = append(ri.files, s.File)
		}
	}
	return ri
}

// StartSampler samples continuously until StopSampler.
func (r *Run) StartSampler(every time.Duration) {
	r.stopSampler = make(chan struct{})
	r.samplerDone = make(chan struct{})
	go func() {
		defer close(r.samplerDone)
		for {
			select {
			case <-r.stopSampler:
				return
			default:
			}
			r.Sample("bg")
			time.Sleep(every)
		}
	}()
}

func (r *Run) StopSampler() {
	if r.stopSampler != nil {
		close(r.stopSampler)
		<-r.samplerDone
		r.stopSampler = nil
	}
}

// Quiesce waits until persister and merger have caught up with the root and
// nothing changed for a while; returns false on timeout.
func (r *Run) Quiesce(timeout time.Duration) bool {
	deadline := time.Now().Add(timeout)
	stableSince := time.Time{}
	var lastSig string
	for time.Now().Before(deadline) {
		m := r.Sc.StatsMap()
		cur, _ := m["CurRootEpoch"].(uint64)
		lp, _ := m["LastPersistedEpoch"].(uint64)
		lm, _ := m["LastMergedEpoch"].(uint64)
		sig := fmt.Sprint(cur, lp, lm, r.Rec.Hits())
		if lp >= cur && lm >= cur {
			if sig == lastSig {
				if stableSince.IsZero() {
					stableSince = time.Now()
				} else if time.Since(stableSince) > 60*time.Millisecond {
					return true
				}
			} else {
				stableSince = time.Time{}
			}
		} else {
			stableSince = time.Time{}
		}
		lastSig = sig
		time.Sleep(5 * time.Millisecond)
	}
	return false
}

// Settle brings the index to the state "writing stopped and background work
// has settled": eligibility of old epochs is recorded asynchronously (go
// AddEligibleForRemoval) and the purger only runs when the persister loop is
// woken, so the loops are nudged (a forced merge makes the merger notify the
// persister, which purges) until the on-disk state stops changing.
func (r *Run) Settle(timeout time.Duration) bool {
	deadline := time.Now().Add(timeout)
	last := ""
	same := 0
	for i := 0; time.Now().Before(deadline); i++ {
		if !r.Quiesce(time.Until(deadline)) {
			return false
		}
		_ = r.ForceMerge()
		if !r.Quiesce(time.Until(deadline)) {
			return false
		}
		b, _ := r.Sc.VerifBoltFiles()
		st := r.Sc.VerifStateNow()
		sig := fmt.Sprint(b, ZapFiles(StoreDir(r.Dir)), st.Ineligible, st.Eligible)
		if sig == last {
			same++
			if same >= 2 && i >= 3 {
				return true
			}
		} else {
			same = 0
		}
		last = sig
		time.Sleep(3 * time.Millisecond)
	}
	return false
}

func (r *Run) ForceMerge() error {
	ctx, cancel := context.WithTimeout(context.Background(), 60*time.Second)
	defer cancel()
	return r.Sc.ForceMerge(ctx, nil)
}

// ForceMergeCancelled starts a forced merge whose context is cancelled after d
// (0 = already cancelled): the merge fails or is abandoned half way.
func (r *Run) ForceMergeCancelled(d time.Duration) error {
	ctx, cancel := context.WithCancel(context.Background())
	if d <= 0 {
		cancel()
	} else {
		go func() { time.Sleep(d); cancel() }()
	}
	defer cancel()
	return r.Sc.ForceMerge(ctx, nil)
}

// OpenFDsUnder lists the process's open file descriptors that point into dir.
func OpenFDsUnder(dir string) []string {
	ents, err := os.ReadDir("/proc/self/fd")
	if err != nil {
		return nil
	}
	var out []string
	for _, e := range ents {
		t, err := os.Readlink("/proc/self/fd/" + e.Name())
		if err == nil && len(t) >= len(dir) && t[:len(dir)] == dir {
			out = append(out, t)
		}
	}
	sort.Strings(out)
	return out
}

// Reopen closes the index cleanly and opens it again (same directory, same
// runtime configuration); the recorder stays installed.
func (r *Run) Reopen() error {
	r.readersMu.Lock()
	var rids []int
	for id := range r.readers {
		rids = append(rids, id)
	}
	r.readersMu.Unlock()
	for _, id := range rids {
		r.CloseReader(id)
	}
	if err := r.Idx.Close(); err != nil {
		return err
	}
	r.Rec.Emit("Reopen", nil)
	cfg := map[string]interface{}{}
	for k, v := range r.WL.KVConfig {
		cfg[k] = v
	}
	idx, err := bleve.OpenUsing(r.Dir, cfg)
	if err != nil {
		return err
	}
	r.Idx = idx
	adv, _ := idx.Advanced()
	r.Sc, _ = adv.(*scorch.Scorch)
	return nil
}

// Close closes the index and uninstalls the hook.
func (r *Run) Close() error {
	r.StopSampler()
	r.readersMu.Lock()
	var rids []int
	for id := range r.readers {
		rids = append(rids, id)
	}
	r.readersMu.Unlock()
	for _, id := range rids {
		r.CloseReader(id)
	}
	var err error
	if r.Idx != nil {
		err = r.Idx.Close()
		r.Idx = nil
	}
	r.Rec.Emit("Closed", map[string]any{"fds": strsAny(OpenFDsUnder(r.Dir))})
	Uninstall()
	return err
}
