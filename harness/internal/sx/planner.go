package sx

import (
	"fmt"
	"math/rand"
	"time"

	"github.com/blevesearch/bleve/v2/index/scorch/mergeplan"

	"verif/harness/internal/core"
)

// The planner's contract the merge actions of ScorchDisk.tla rely on (tasks of one plan are
// pairwise disjoint subsets of the planned snapshot): the real mergeplan.Plan is called on
// seeded segment layouts and option sets, TLC (trace/JudgeMergePlan.tla) judges every plan.

type planSeg struct {
	id         uint64
	full, live int64
}

func (s *planSeg) Id() uint64          { return s.id }
func (s *planSeg) FullSize() int64     { return s.full }
func (s *planSeg) LiveSize() int64     { return s.live }
func (s *planSeg) HasVector() bool     { return false }
func (s *planSeg) FileSize() int64     { return s.full * 100 }
func (s *planSeg) LiveFileSize() int64 { return s.live * 100 }

// PlannerContract is shared by C04 and C05; prefix is the violation signature prefix.
func PlannerContract(c *core.Ctx, prefix string) error {
	rng := rand.New(rand.NewSource(c.Seed*31 + 5))
	var recs []any
	n := c.Pick(6000, 60000)
	for k := 0; k < n; k++ {
		nseg := 2 + rng.Intn(8)
		var segs []mergeplan.Segment
		ids := []any{}
		for i := 0; i < nseg; i++ {
			full := int64(1 + rng.Intn(60))
			live := full - int64(rng.Intn(int(full)/2+1))
			segs = append(segs, &planSeg{id: uint64(i + 1), full: full, live: live})
			ids = append(ids, i+1)
		}
		o := mergeplan.DefaultMergePlanOptions
		o.MaxSegmentsPerTier = 1 + rng.Intn(4)
		o.MaxSegmentSize = int64(5 + rng.Intn(120))
		o.SegmentsPerMergeTask = 2 + rng.Intn(4)
		o.FloorSegmentSize = int64(1 + rng.Intn(20))
		o.TierGrowth = float64(2 + rng.Intn(9))
		if rng.Intn(4) == 0 {
			o = mergeplan.SingleSegmentMergePlanOptions
			o.SegmentsPerMergeTask = 2 + rng.Intn(4)
		}
		if mergeplan.ValidateMergePlannerOptions(&o) != nil {
			continue
		}
		p, err := mergeplan.Plan(segs, &o)
		if err != nil || p == nil {
			continue
		}
		tasks := []any{}
		for _, t := range p.Tasks {
			ts := []any{}
			for _, sg := range t.Segments {
				ts = append(ts, int(sg.Id()))
			}
			tasks = append(tasks, ts)
		}
		if len(tasks) == 0 {
			continue
		}
		recs = append(recs, map[string]any{"segs": ids, "tasks": tasks, "opts": fmt.Sprintf("%+v", o)})
		c.Eval(1)
	}
	if len(recs) == 0 {
		return nil
	}
	bad, err := c.JudgeRecords("JudgeMergePlan", "JudgeMergePlan.cfg", recs, 3, core.Timeout(10*time.Minute))
	if err != nil {
		return err
	}
	for i, inv := range bad {
		c.Violation(prefix+"/merge-plan/"+inv, fmt.Sprintf("mergeplan.Plan returned a plan that breaks %s (a segment merged by two tasks is introduced twice): %v", inv, recs[i]), map[string]any{"record": recs[i]})
	}
	c.AddExtra("merge_plans_judged", int64(len(recs)))
	return nil
}
