package sx

import (
	"context"
	"fmt"
	"os"
	"os/exec"
	"path/filepath"
	"time"

	bleve "github.com/blevesearch/bleve/v2"
	"github.com/blevesearch/bleve/v2/index/scorch/mergeplan"
)

// directed replays the schedule TLC finds as the counterexample of
// ReaderFilesOnDisk in ScorchDisk_mc_reader.cfg (DESIGN section 8, lead 8) on the real
// code, once with a plain reader and once with an online copy holding the
// never-persisted root epoch:
//
//	persist batches 1,2 (two file segments) -> park the persister after its
//	next round -> batch 4 moves the root to an epoch the persister never takes
//	-> reader / copy opens that root -> forced merge replaces its file segments
//	-> release the persister: it persists the merged root and purges the old
//	bolt epochs and then their files.
//
// With the copy the files are protected by copyScheduled; with the plain
// reader nothing pins them (open known finding).
// DirectedResult is what the directed schedule produced.
type DirectedResult struct {
	Samples []any // Sample events (TraceFiles vocabulary)
	Records []any // TraceCrash records incl. CopyBegin / Recovered of the copy
	CopyErr error
	// DirectedFailedMerge
	Merged       int            // merge introductions of the first forced merge
	FailedMerges int            // merges that ended with an error
	Reopen       map[string]any // what reopening after the run found
	AtPurge      map[string]any // what opening a copy of the directory taken right after the purge found
	Events       []Event
}

func DirectedHeldEpoch(base string, seed int64, useCopy bool) (*DirectedResult, error) {
	return directedHeldEpoch(base, seed, useCopy, false)
}

// DirectedHeldEpochBuilt is the same schedule with an online copy on an index
// whose first file segment was made by the offline builder (its file is not
// named after its segment id; ScorchDisk_mc_builder.cfg, and
// ScorchDisk_mc_builder_byid.cfg for the design that schedules files by id).
// The builder's documents belong to no recorded batch, so Records is empty:
// the verdict is the copy's success and the file-level observations.
func DirectedHeldEpochBuilt(base string, seed int64) (*DirectedResult, error) {
	return directedHeldEpoch(base, seed, true, true)
}

func directedHeldEpoch(base string, seed int64, useCopy, built bool) (*DirectedResult, error) {
	dir := filepath.Join(base, "idx")
	defer os.RemoveAll(base)
	res := &DirectedResult{}
	wl := Workload{Name: "directed", Writers: 1, Safe: false, KVConfig: map[string]interface{}{"unsafe_batch": true}}
	if built {
		wl.BuilderIDs = []string{"a", "b"}
		// keep the planner from merging the builder's segment away before the schedule asks for it
		wl.KVConfig["scorchMergePlanOptions"] = map[string]interface{}{"FloorSegmentSize": 1}
	}
	r, err := Start(dir, wl, seed, 0)
	if err != nil {
		return nil, err
	}
	closed := false
	defer func() {
		if !closed {
			_ = r.Close()
		}
	}()
	step := func(puts, dels []string) error {
		_, err := r.Submit(BatchSpec{W: 1, Puts: puts, Dels: dels})
		return err
	}
	if !built {
		if err := step([]string{"a"}, nil); err != nil {
			return nil, err
		}
		if !r.Quiesce(20 * time.Second) {
			return nil, fmt.Errorf("directed: no quiescence after batch 1")
		}
		if err := step([]string{"b"}, nil); err != nil {
			return nil, err
		}
	}
	if !r.Quiesce(20 * time.Second) {
		return nil, fmt.Errorf("directed: no quiescence after batch 2")
	}
	// park the persister after its next completed round
	r.SetHolds([]HoldRule{{Point: "persist.acked", Until: "Go", Count: 1, Timeout: 20 * time.Second, Prob: 1, Once: true},
		{Point: "copy.file", Until: "Go2", Count: 1, Timeout: 20 * time.Second, Prob: 1, Once: true},
		{Point: "copy.memfile", Until: "Go2", Count: 1, Timeout: 20 * time.Second, Prob: 1, Once: true}})
	acks0 := r.Rec.Count("PersistAcked")
	if err := step([]string{"c"}, nil); err != nil {
		return nil, err
	}
	_ = acks0
	if !waitParked(r, 10*time.Second) {
		return nil, fmt.Errorf("directed: persister did not park after batch 3 (committed %d acked %d takes %d)", r.Rec.Count("PersistCommitted"), r.Rec.Count("PersistAcked"), r.Rec.Count("PersistTake"))
	}
	time.Sleep(5 * time.Millisecond)                 // let it reach the parking point
	if err := step([]string{"d"}, nil); err != nil { // root moves to an epoch the parked persister never takes
		return nil, err
	}
	var copyDone chan error
	rid := 0
	copies0 := r.Rec.Count("CopyOpen")
	merges0 := r.Rec.Count("IntroMerge")
	if useCopy {
		copyDone = make(chan error, 1)
		dest := filepath.Join(filepath.Dir(dir), "copy")
		r.Rec.Emit("CopyBegin", nil)
		go func() {
			cp := r.Idx.(bleve.IndexCopyable)
			copyDone <- cp.CopyTo(bleve.FileSystemDirectory(dest))
		}()
		if !r.Rec.WaitCount("CopyOpen", copies0+1, 10*time.Second) {
			return nil, fmt.Errorf("directed: copy did not start")
		}
		time.Sleep(2 * time.Millisecond)
		// a second, overlapping backup of the same root that finishes first: its
		// release must not take away the protection of the files the parked one needs
		dest2 := filepath.Join(filepath.Dir(dir), "copy2")
		r.RemoveHold("copy.memfile") // the second backup runs unhindered
		r.RemoveHold("copy.file")
		if err := r.Idx.(bleve.IndexCopyable).CopyTo(bleve.FileSystemDirectory(dest2)); err != nil {
			res.CopyErr = fmt.Errorf("overlapping copy: %v", err)
		}
		r.AddHold(HoldRule{Point: "copy.memfile", Until: "Go2", Count: 1, Timeout: 20 * time.Second, Prob: 1, Once: true})
		r.AddHold(HoldRule{Point: "copy.file", Until: "Go2", Count: 1, Timeout: 20 * time.Second, Prob: 1, Once: true})
		_ = os.RemoveAll(dest2)
	} else {
		if rid, err = r.OpenReader(); err != nil {
			return nil, err
		}
	}
	merged := make(chan error, 1)
	go func() { merged <- r.ForceMerge() }()
	if !r.Rec.WaitCount("IntroMerge", merges0+1, 10*time.Second) {
		return nil, fmt.Errorf("directed: forced merge was not introduced")
	}
	purgesBefore := r.Rec.Count("PurgeEnd")
	r.Rec.Emit("Go", nil) // release the persister
	<-merged
	deadline := time.Now().Add(10 * time.Second)
	for r.Rec.Count("PurgeEnd") < purgesBefore+1 && time.Now().Before(deadline) {
		time.Sleep(time.Millisecond)
	}
	r.Quiesce(10 * time.Second)
	r.Sample("directed")
	r.SetHolds(nil)
	if useCopy {
		r.Rec.Emit("Go2", nil)
		if err := <-copyDone; err != nil {
			res.CopyErr = err
			r.Rec.Emit("Recovered", map[string]any{"kind": "copy", "min": 0, "point": 0, "opened": false, "docs": []any{}, "seq": 0, "count": 0, "matchall": []any{}, "err": err.Error()})
		} else {
			rec, _, cidx := RecoveredRecord(filepath.Join(filepath.Dir(dir), "copy"), "copy", nil)
			if cidx != nil {
				_ = cidx.Close()
			}
			r.Rec.Emit("Recovered", rec)
		}
	} else {
		r.CloseReader(rid)
	}
	r.SetHolds(nil)
	closed = true
	if err := r.Close(); err != nil {
		return nil, err
	}
	res.Samples = append(res.Samples, map[string]any{"ev": "Reset"})
	for _, ev := range r.Rec.Events() {
		if ev["ev"] == "Sample" {
			res.Samples = append(res.Samples, map[string]any(ev))
		}
	}
	if !built {
		res.Records = CrashRecords(r.Rec.Events())
	}
	res.Events = r.Rec.Events()
	return res, nil
}

// waitParked waits until the persister sits in the hold at persist.acked: it
// has committed but PersistAcked (recorded after the hold) has not appeared.
func waitParked(r *Run, timeout time.Duration) bool {
	deadline := time.Now().Add(timeout)
	for time.Now().Before(deadline) {
		if r.Rec.Count("PersistCommitted") > r.Rec.Count("PersistAcked") {
			time.Sleep(2 * time.Millisecond)
			if r.Rec.Count("PersistCommitted") > r.Rec.Count("PersistAcked") {
				return true
			}
		}
		time.Sleep(200 * time.Microsecond)
	}
	return false
}

// DirectedFailedMerge drives the "fast merger, slow persister, failed merge"
// schedule of ScorchDisk's MFail action (found by TLC as the shortest way a
// wrongly released mark loses a root file):
//
//	six persisted file segments; the persister is parked at the start of its
//	purge; a forced merge turns them into two merged files which the parked
//	persister has not recorded; a second forced merge over those two is
//	cancelled after it marked its output name; the purge is released.
//
// Observations are taken while the merged files are protected by their marks
// alone, and after the purge ran.
// DirectedDroppedMergeOutput is the same schedule with another second half: instead of a
// failed merge, a batch deletes every document, so the merge outputs the parked persister
// never recorded drop out of the root (ScorchDisk!IntroSegment: r.dropped are un-marked).
// At quiescence no mark and no file may be left.
func DirectedDroppedMergeOutput(base string, seed int64) (*DirectedResult, error) {
	return directedMerge(base, seed, true)
}

func DirectedFailedMerge(base string, seed int64) (*DirectedResult, error) {
	return directedMerge(base, seed, false)
}

func directedMerge(base string, seed int64, wipe bool) (*DirectedResult, error) {
	dir := filepath.Join(base, "idx")
	defer os.RemoveAll(base)
	res := &DirectedResult{}
	wl := Workload{Name: "directed-mergefail", Writers: 1, Safe: false, KVConfig: map[string]interface{}{
		"unsafe_batch": true,
		// the background planner stays passive (budget = number of live documents)
		"scorchMergePlanOptions": map[string]interface{}{"FloorSegmentSize": 1},
	}}
	r, err := Start(dir, wl, seed, 0)
	if err != nil {
		return nil, err
	}
	closed := false
	defer func() {
		if !closed {
			r.SetHolds(nil)
			r.Rec.Emit("GoPurge", nil)
			r.Rec.Emit("GoMerge", nil)
			_ = r.Close()
		}
	}()
	ids := []string{"a", "b", "c", "d", "e", "f"}
	for i, id := range ids {
		if i == len(ids)-1 {
			// park the persister at the start of the purge that follows this batch
			r.SetHolds([]HoldRule{{Point: "purge.begin", Until: "GoPurge", Count: 1, Timeout: 30 * time.Second, Prob: 1, Once: true}})
		}
		if _, err := r.Submit(BatchSpec{W: 1, Puts: []string{id}}); err != nil {
			return nil, err
		}
		if i < len(ids)-1 && !r.Quiesce(20*time.Second) {
			return nil, fmt.Errorf("directed-mergefail: no quiescence after batch %d", i+1)
		}
	}
	if !r.WaitParked("purge.begin", 1, 20*time.Second) {
		return nil, fmt.Errorf("directed-mergefail: the persister did not reach its purge")
	}
	merges0 := r.Rec.Count("IntroMerge")
	opts := mergeplan.SingleSegmentMergePlanOptions
	opts.SegmentsPerMergeTask = 3
	ctx, cancel := context.WithTimeout(context.Background(), 30*time.Second)
	err = r.Sc.ForceMerge(ctx, &opts)
	cancel()
	if err != nil {
		return nil, fmt.Errorf("directed-mergefail: forced merge: %v", err)
	}
	res.Merged = r.Rec.Count("IntroMerge") - merges0
	r.Sample("merged-unpersisted")
	if wipe {
		if _, err := r.Submit(BatchSpec{W: 1, Puts: []string{}, Dels: ids}); err != nil {
			return nil, err
		}
		r.Sample("merge-outputs-dropped")
		purges0 := r.Rec.Count("PurgeEnd")
		r.Rec.Emit("GoPurge", nil)
		deadline := time.Now().Add(10 * time.Second)
		for r.Rec.Count("PurgeEnd") < purges0+1 && time.Now().Before(deadline) {
			time.Sleep(time.Millisecond)
		}
		r.SetHolds(nil)
		if r.Settle(30 * time.Second) {
			r.Sample("quiescent")
		}
		closed = true
		if err := r.Close(); err != nil {
			return nil, err
		}
		res.Events = r.Rec.Events()
		return res, nil
	}
	// second merge, over the merged files: cancelled once it has marked its output
	r.AddHold(HoldRule{Point: "merge.marked", Until: "GoMerge", Count: 1, Timeout: 30 * time.Second, Prob: 1, Once: true})
	cleanups0 := r.Rec.Count("MergeCleanup")
	ctx2, cancel2 := context.WithCancel(context.Background())
	done := make(chan error, 1)
	go func() { done <- r.Sc.ForceMerge(ctx2, nil) }()
	if r.WaitParked("merge.marked", 1, 10*time.Second) {
		cancel2()
		time.Sleep(3 * time.Millisecond) // the listener closes the merge's cancel channel
		r.Rec.Emit("GoMerge", nil)
	}
	<-done
	cancel2()
	r.Rec.WaitCount("MergeCleanup", cleanups0+1, 10*time.Second)
	for _, ev := range r.Rec.Events() {
		if ev["ev"] == "MergeCleanup" {
			if e, _ := ev["err"].(bool); e {
				res.FailedMerges++
			}
		}
	}
	r.Sample("after-failed-merge")
	purges0 := r.Rec.Count("PurgeEnd")
	r.Rec.Emit("GoPurge", nil)
	deadline := time.Now().Add(10 * time.Second)
	for r.Rec.Count("PurgeEnd") < purges0+1 && time.Now().Before(deadline) {
		time.Sleep(time.Millisecond)
	}
	r.Sample("after-purge")
	r.SetHolds(nil)
	// "reopening at that moment": once the loops are idle again the directory is copied
	// (what a kill at this instant leaves behind) and the copy is opened
	if r.Quiesce(10 * time.Second) {
		snap := filepath.Join(base, "at-purge")
		if err := exec.Command("cp", "-r", dir, snap).Run(); err == nil {
			rec, _, cidx := RecoveredRecord(snap, "crash", nil)
			if cidx != nil {
				if cont, err := ObserveContent(cidx, "e", "f"); err == nil {
					rec["docs"], rec["seq"], rec["count"], rec["matchall"] = cont.Docs, cont.Seq, cont.Count, cont.MatchAll
				}
				_ = cidx.Close()
			}
			res.AtPurge = rec
		}
	}
	if r.Settle(30 * time.Second) {
		r.Sample("quiescent")
	}
	closed = true
	if err := r.Close(); err != nil {
		return nil, err
	}
	// reopening at that moment must come up with the same content
	rec, _, idx := RecoveredRecord(dir, "reopen", nil)
	if idx != nil {
		// this history uses ids beyond the default id space
		if cont, err := ObserveContent(idx, "e", "f"); err == nil {
			rec["docs"], rec["seq"], rec["count"], rec["matchall"] = cont.Docs, cont.Seq, cont.Count, cont.MatchAll
		}
		_ = idx.Close()
	}
	res.Reopen = rec
	res.Events = r.Rec.Events()
	return res, nil
}
