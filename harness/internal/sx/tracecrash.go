package sx

import (
	"fmt"
	"strconv"
	"time"

	bleve "github.com/blevesearch/bleve/v2"

	"verif/harness/internal/core"
)

// CrashRecords projects recorded events onto the vocabulary of
// spec/trace/TraceCrash.tla.
func CrashRecords(evs []Event) []any {
	var out []any
	for _, ev := range evs {
		name, _ := ev["ev"].(string)
		switch name {
		case "Reset":
			out = append(out, map[string]any{"ev": name, "safe": ev["safe"]})
		case "Submit":
			out = append(out, map[string]any{"ev": name, "b": ev["b"], "puts": ev["puts"], "dels": ev["dels"]})
		case "IntroSegment":
			ep := 0
			if rt, ok := ev["root"].(map[string]any); ok {
				switch x := rt["epoch"].(type) {
				case int:
					ep = x
				case float64:
					ep = int(x)
				}
			}
			out = append(out, map[string]any{"ev": name, "b": ev["b"], "epoch": ep})
		case "PersistCommitted":
			m := map[string]any{"ev": name, "epoch": ev["epoch"], "segids": []any{}, "boltids": []any{}, "checked": false}
			if a, ok := ev["segids"].([]any); ok {
				if b, ok := ev["boltids"].([]any); ok {
					m["segids"], m["boltids"], m["checked"] = a, b, true
				}
			}
			out = append(out, m)
		case "Return", "Callback":
			out = append(out, map[string]any{"ev": name, "b": ev["b"]})
		case "MemMergeEquiv":
			conv := func(v any) (int, int, []any) {
				m, _ := v.(map[string]any)
				ep := 0
				switch x := m["epoch"].(type) {
				case int:
					ep = x
				case float64:
					ep = int(x)
				}
				seq := 0
				switch in := m["internal"].(type) {
				case map[string]string:
					if sv, ok := in["seq"]; ok && len(sv) > 1 {
						seq, _ = strconv.Atoi(sv[1:])
					}
				case map[string]any:
					if sv, ok := in["seq"].(string); ok && len(sv) > 1 {
						seq, _ = strconv.Atoi(sv[1:])
					}
				}
				segs := []any{}
				if ss, ok := m["segs"].([]any); ok {
					for _, x := range ss {
						sm := x.(map[string]any)
						f := 0
						if fs, _ := sm["file"].(string); fs != "" {
							f = 1
						}
						segs = append(segs, []any{sm["id"], sm["count"], sm["deleted"], f})
					}
				}
				return ep, seq, segs
			}
			sep, sseq, ssegs := conv(ev["snap"])
			eep, eseq, esegs := conv(ev["equiv"])
			out = append(out, map[string]any{"ev": name, "sepoch": sep, "sseq": sseq, "ssegs": ssegs, "eepoch": eep, "eseq": eseq, "esegs": esegs})
		case "CopyBegin", "Recovered", "PostWrite", "Points", "SourceAfter":
			m := map[string]any{}
			for k, v := range ev {
				if k != "eseq" {
					m[k] = v
				}
			}
			delete(m, "hit")
			out = append(out, m)
		}
	}
	return out
}

// RecoveredRecord opens an index directory and observes it.
func RecoveredRecord(indexDir, kind string, extra map[string]any) (map[string]any, *Content, bleve.Index) {
	rec := map[string]any{"ev": "Recovered", "kind": kind, "min": 0, "point": 0, "opened": false, "docs": []any{}, "seq": 0, "count": 0, "matchall": []any{}}
	for k, v := range extra {
		rec[k] = v
	}
	idx, err := bleve.Open(indexDir)
	if err != nil {
		rec["err"] = err.Error()
		return rec, nil, nil
	}
	cont, err := ObserveContent(idx)
	if err != nil {
		rec["err"] = err.Error()
		_ = idx.Close()
		return rec, nil, nil
	}
	rec["opened"], rec["docs"], rec["seq"], rec["count"], rec["matchall"] = true, cont.Docs, cont.Seq, cont.Count, cont.MatchAll
	return rec, cont, idx
}

// JudgeRuns validates the concatenation of several runs' TraceCrash records
// and reports each rejected run through fn (invariant name, run index).
func JudgeRuns(c *core.Ctx, runs [][]any, fn func(inv string, run int, text string)) {
	live := make([]int, 0, len(runs))
	for i := range runs {
		if len(runs[i]) > 0 {
			live = append(live, i)
		}
	}
	nbad := 0
	for len(live) > 0 {
		var recs []any
		owner := []int{}
		for _, i := range live {
			for _, x := range runs[i] {
				recs = append(recs, x)
				owner = append(owner, i)
			}
		}
		tf, err := c.ValidateTrace("TraceCrash", "TraceCrash.cfg", recs, core.Timeout(15*time.Minute))
		if err != nil {
			c.Inconclusive(err.Error())
			return
		}
		if tf == nil {
			c.Traces(len(live))
			return
		}
		idx := tf.Line - 2
		if tf.Invariant == "" {
			idx = tf.Line - 1
		}
		if idx < 0 || idx >= len(owner) {
			c.Inconclusive(fmt.Sprintf("TraceCrash rejected without a usable position: %s", tf.Text))
			return
		}
		inv := tf.Invariant
		if inv == "" {
			inv = "TraceNotAccepted"
		}
		bad := owner[idx]
		fn(inv, bad, tf.Text)
		if nbad++; nbad >= 5 {
			return // enough: every further rejected run costs one more TLC run
		}
		nl := live[:0]
		for _, i := range live {
			if i != bad {
				nl = append(nl, i)
			}
		}
		live = nl
	}
}

// ScorchRecords projects recorded events onto the vocabulary of
// spec/trace/TraceScorch.tla (step-by-step conformance of the introducer).
func ScorchRecords(evs []Event) []any {
	segsOf := func(v any) (int, []any) {
		m, _ := v.(map[string]any)
		ep, _ := m["epoch"].(int)
		out := []any{}
		if segs, ok := m["segs"].([]any); ok {
			for _, s := range segs {
				sm := s.(map[string]any)
				f := 0
				if fs, _ := sm["file"].(string); fs != "" {
					f = 1
				}
				out = append(out, []any{sm["id"], sm["count"], sm["deleted"], f})
			}
		}
		return ep, out
	}
	var out []any
	for _, ev := range evs {
		name, _ := ev["ev"].(string)
		switch name {
		case "Reset":
			out = append(out, map[string]any{"ev": name})
		case "Submit":
			out = append(out, map[string]any{"ev": name, "b": ev["b"], "puts": ev["puts"], "dels": ev["dels"]})
		case "IntroSegment":
			ep, segs := segsOf(ev["root"])
			out = append(out, map[string]any{"ev": name, "b": ev["b"], "sid": ev["sid"], "epoch": ep, "segs": segs})
		case "IntroPersist":
			ep, segs := segsOf(ev["root"])
			out = append(out, map[string]any{"ev": name, "epoch": ep, "segs": segs})
		case "MergeTake", "PersistTake":
			out = append(out, map[string]any{"ev": name})
		case "MergeRequest":
			out = append(out, map[string]any{"ev": name, "filemerge": ev["filemerge"], "new": ev["new"], "inputs": ev["inputs"], "task": ev["task"]})
		case "IntroMerge":
			ep, segs := segsOf(ev["root"])
			out = append(out, map[string]any{"ev": name, "filemerge": ev["filemerge"], "new": ev["new"], "skipped": ev["skipped"], "epoch": ep, "segs": segs})
		}
	}
	return out
}

// SimulatedSchedules asks TLC for n simulated behaviours of ScorchDisk.tla and
// projects them onto schedules (Engine S).
func SimulatedSchedules(c *core.Ctx, n, depth int, seed int64, safe bool) ([]Schedule, error) {
	cfg := "ScorchDisk_sim_unsafe.cfg"
	if safe {
		cfg = "ScorchDisk_sim_safe.cfg"
	}
	behs, err := c.Simulate("ScorchDisk", cfg, n, depth, seed, core.Timeout(10*time.Minute))
	if err != nil {
		return nil, err
	}
	var out []Schedule
	for _, b := range behs {
		s := ProjectSchedule(b, safe)
		if len(s.Steps) > 0 {
			out = append(out, s)
		}
	}
	return out, nil
}

// RunSchedule executes one TLC-generated schedule on a fresh disk scorch index.
// after is called after every step (observations); the finished Run is returned closed.
func RunSchedule(dir string, sch Schedule, seed int64, after func(r *Run, i int, st SchedStep)) (*Run, *Scheduler, error) {
	kv := map[string]interface{}{}
	if !sch.Safe {
		kv["unsafe_batch"] = true
	}
	wl := Workload{Name: "tlc-schedule", Writers: sch.Writers, Safe: sch.Safe, KVConfig: kv}
	r, err := Start(dir, wl, seed, 0)
	if err != nil {
		return nil, nil, err
	}
	s := NewScheduler(r)
	if after != nil {
		s.AfterStep = func(i int, st SchedStep, moved bool) { after(r, i, st) }
	}
	s.Execute(sch)
	return r, s, nil
}
