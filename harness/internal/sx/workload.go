package sx

import (
	"fmt"
	"math/rand"
	"path/filepath"
	"sort"
	"strconv"
	"strings"

	bleve "github.com/blevesearch/bleve/v2"
	"github.com/blevesearch/bleve/v2/index/scorch"
	index "github.com/blevesearch/bleve_index_api"
)

// BatchSpec is one batch of a workload: the documents it writes carry the
// batch number as their version (document <<id, B>> of spec/ScorchOps.tla).
type BatchSpec struct {
	B    int      `json:"b"`
	W    int      `json:"w"`
	Puts []string `json:"puts"`
	Dels []string `json:"dels"`
}

// Workload is a set of batches per writer plus the index configuration.
type Workload struct {
	Name     string                 `json:"name"`
	Batches  []BatchSpec            `json:"batches"` // in global numbering order; writer W executes its own in order
	Writers  int                    `json:"writers"`
	Safe     bool                   `json:"safe"`
	KVConfig map[string]interface{} `json:"kvconfig"`
	// Tail operations after all batches: "persist", "merge", "close"
	Tail []string `json:"tail"`
	// LockPauseUS > 0: pause (microseconds) injected at the hook points that run
	// while the root lock is held (persist.take, merge.take) - a slow machine.
	// Go's mutex then hands the lock to a waiting introducer first (starvation
	// mode), the schedule in which "take the snapshot AND its waiters in one
	// critical section" matters.
	LockPauseUS int `json:"lock_pause_us,omitempty"`
	// BuilderIDs non-empty: the index is first made by the offline builder
	// (bleve.NewBuilder) holding these ids with version 0, and then opened and used
	// online (ScorchDisk.tla, BuilderBase: one recorded snapshot whose only segment
	// has an id that is not the number of its file).
	BuilderIDs []string `json:"builder_ids,omitempty"`
}

var idSpace = []string{"a", "b", "c", "d"}

// RandomWorkload draws a workload: nb batches over a 4-id space (so updates,
// deletes and re-creations of the same id are frequent), 1-3 ops per batch,
// occasionally an empty batch.
func RandomWorkload(rng *rand.Rand, nb, writers int, safe bool, kv map[string]interface{}) Workload {
	w := Workload{Writers: writers, Safe: safe, KVConfig: map[string]interface{}{}}
	for k, v := range kv {
		w.KVConfig[k] = v
	}
	if !safe {
		w.KVConfig["unsafe_batch"] = true
	}
	for b := 1; b <= nb; b++ {
		bs := BatchSpec{B: b, W: 1 + rng.Intn(writers), Puts: []string{}, Dels: []string{}}
		nops := 1 + rng.Intn(3)
		if rng.Intn(12) == 0 {
			nops = 0
		}
		used := map[string]bool{}
		for i := 0; i < nops; i++ {
			id := idSpace[rng.Intn(len(idSpace))]
			if used[id] {
				continue
			}
			used[id] = true
			if rng.Intn(3) == 0 {
				bs.Dels = append(bs.Dels, id)
			} else {
				bs.Puts = append(bs.Puts, id)
			}
		}
		sort.Strings(bs.Puts)
		sort.Strings(bs.Dels)
		w.Batches = append(w.Batches, bs)
	}
	w.Tail = []string{"persist", "merge", "cancelmerge", "persist", "merge", "close"}
	return w
}

// DocVer builds the document for (id, version).
func DocVer(ver int) map[string]interface{} {
	return map[string]interface{}{"v": fmt.Sprintf("v%d", ver), "t": "tok"}
}

// BuildBatch turns a BatchSpec into a bleve batch (internal key "seq" = B).
func BuildBatch(idx bleve.Index, bs BatchSpec, cb func(error)) (*bleve.Batch, error) {
	b := idx.NewBatch()
	for _, id := range bs.Puts {
		if err := b.Index(id, DocVer(bs.B)); err != nil {
			return nil, err
		}
	}
	for _, id := range bs.Dels {
		b.Delete(id)
	}
	b.SetInternal([]byte("seq"), []byte("i"+strconv.Itoa(bs.B)))
	if cb != nil {
		b.SetPersistedCallback(index.BatchCallback(cb))
	}
	return b, nil
}

// Content is the observation of an index in the vocabulary of the trace specs.
type Content struct {
	Docs     [][]any  `json:"docs"` // [[id, ver]] sorted by id
	Seq      int      `json:"seq"`
	Count    int      `json:"count"`
	MatchAll []string `json:"matchall"`
}

// ObserveContent reads every document of the id space (plus extra ids).
func ObserveContent(idx bleve.Index, extraIDs ...string) (*Content, error) {
	c := &Content{Docs: [][]any{}, MatchAll: []string{}}
	n, err := idx.DocCount()
	if err != nil {
		return nil, err
	}
	c.Count = int(n)
	ids := append(append([]string{}, idSpace...), extraIDs...)
	for _, id := range ids {
		d, err := idx.Document(id)
		if err != nil {
			return nil, err
		}
		if d == nil {
			continue
		}
		ver := -1
		d.VisitFields(func(f index.Field) {
			if f.Name() == "v" {
				ver, _ = strconv.Atoi(strings.TrimPrefix(string(f.Value()), "v"))
			}
		})
		c.Docs = append(c.Docs, []any{id, ver})
	}
	res, err := idx.Search(bleve.NewSearchRequestOptions(bleve.NewMatchAllQuery(), 1000, 0, false))
	if err != nil {
		return nil, err
	}
	for _, h := range res.Hits {
		c.MatchAll = append(c.MatchAll, h.ID)
	}
	sort.Strings(c.MatchAll)
	v, err := idx.GetInternal([]byte("seq"))
	if err != nil {
		return nil, err
	}
	if v != nil {
		c.Seq, _ = strconv.Atoi(strings.TrimPrefix(string(v), "i"))
	}
	return c, nil
}

// StoreDir is the scorch directory inside a bleve index directory.
func StoreDir(indexDir string) string { return filepath.Join(indexDir, "store") }

// OpenScorch creates a disk scorch index for a workload.
func OpenScorch(indexDir string, kv map[string]interface{}) (bleve.Index, error) {
	cfg := map[string]interface{}{}
	for k, v := range kv {
		cfg[k] = v
	}
	return bleve.NewUsing(indexDir, bleve.NewIndexMapping(), scorch.Name, scorch.Name, cfg)
}

// OpenWorkload creates the index of a workload: empty, or made by the offline
// builder and then opened for online use.
func OpenWorkload(indexDir string, wl Workload) (bleve.Index, error) {
	if len(wl.BuilderIDs) == 0 {
		return OpenScorch(indexDir, wl.KVConfig)
	}
	b, err := bleve.NewBuilder(indexDir, bleve.NewIndexMapping(), map[string]interface{}{"buildPathPrefix": filepath.Dir(indexDir)})
	if err != nil {
		return nil, err
	}
	for _, id := range wl.BuilderIDs {
		if err := b.Index(id, DocVer(0)); err != nil {
			return nil, err
		}
	}
	if err := b.Close(); err != nil {
		return nil, err
	}
	cfg := map[string]interface{}{}
	for k, v := range wl.KVConfig {
		cfg[k] = v
	}
	return bleve.OpenUsing(indexDir, cfg)
}

// WithMarker makes every batch also write the marker document "m" (version =
// batch number), so that one search identifies the prefix it observed.
func (w Workload) WithMarker() Workload {
	out := w
	out.Batches = nil
	for _, b := range w.Batches {
		nb := b
		nb.Puts = append(append([]string{}, b.Puts...), "m")
		out.Batches = append(out.Batches, nb)
	}
	return out
}

// SearchContent returns the whole content of the index through ONE search
// (match_all with the stored version field): [[id, ver]].
func SearchContent(idx bleve.Index) ([][]any, error) {
	req := bleve.NewSearchRequestOptions(bleve.NewMatchAllQuery(), 1000, 0, false)
	req.Fields = []string{"v"}
	res, err := idx.Search(req)
	if err != nil {
		return nil, err
	}
	out := [][]any{}
	for _, h := range res.Hits {
		ver := -1
		if s, ok := h.Fields["v"].(string); ok {
			ver, _ = strconv.Atoi(strings.TrimPrefix(s, "v"))
		}
		out = append(out, []any{h.ID, ver})
	}
	if int(res.Total) != len(res.Hits) {
		return nil, fmt.Errorf("match_all Total=%d hits=%d", res.Total, len(res.Hits))
	}
	sort.Slice(out, func(i, j int) bool { return out[i][0].(string) < out[j][0].(string) })
	return out, nil
}

// ReaderContent reads everything through one low-level reader.
func ReaderContent(rd index.IndexReader) (docs [][]any, count int, seq int, err error) {
	n, err := rd.DocCount()
	if err != nil {
		return nil, 0, 0, err
	}
	docs = [][]any{}
	for _, id := range append(append([]string{}, idSpace...), "m") {
		d, err := rd.Document(id)
		if err != nil {
			return nil, 0, 0, err
		}
		if d == nil {
			continue
		}
		ver := -1
		d.VisitFields(func(f index.Field) {
			if f.Name() == "v" {
				ver, _ = strconv.Atoi(strings.TrimPrefix(string(f.Value()), "v"))
			}
		})
		docs = append(docs, []any{id, ver})
	}
	v, err := rd.GetInternal([]byte("seq"))
	if err != nil {
		return nil, 0, 0, err
	}
	if v != nil {
		seq, _ = strconv.Atoi(strings.TrimPrefix(string(v), "i"))
	}
	return docs, int(n), seq, nil
}

// SearchVersion runs a term query for the version term of batch b and returns
// the hits with the version their STORED field carries: [[id, ver]].
func SearchVersion(idx bleve.Index, b int) ([][]any, error) {
	q := bleve.NewTermQuery(fmt.Sprintf("v%d", b))
	q.SetField("v")
	req := bleve.NewSearchRequestOptions(q, 1000, 0, false)
	req.Fields = []string{"v"}
	res, err := idx.Search(req)
	if err != nil {
		return nil, err
	}
	out := [][]any{}
	for _, h := range res.Hits {
		ver := -1
		if s, ok := h.Fields["v"].(string); ok {
			ver, _ = strconv.Atoi(strings.TrimPrefix(s, "v"))
		}
		out = append(out, []any{h.ID, ver})
	}
	sort.Slice(out, func(i, j int) bool { return out[i][0].(string) < out[j][0].(string) })
	return out, nil
}
