// Package sx binds the scorch engine to spec/ScorchDisk.tla: a recorder over
// the verif-tag hooks (one ndjson event per linearization point, sequence
// numbers from one counter taken under the recorder lock), inspection of the
// on-disk state (bolt snapshots, zap files) and TLC-derived workloads.
package sx

import (
	"encoding/json"
	"fmt"
	"os"
	"path/filepath"
	"sort"
	"strconv"
	"strings"
	"sync"
	"time"

	"github.com/blevesearch/bleve/v2/index/scorch"
	"github.com/blevesearch/bleve/v2/index/scorch/mergeplan"
	"github.com/blevesearch/bleve/v2/util"
	bolt "go.etcd.io/bbolt"
)

type Event map[string]any

// Recorder records hook events of ONE scorch index (matched by path).
type Recorder struct {
	Path string // index directory of the scorch instance (".../idx/store"); "" = any

	mu     sync.Mutex
	seq    int
	events []Event
	file   *os.File // when set, every event is appended with one write(2) (survives SIGKILL)
	hits   int
	counts map[string]int

	// Gate, when set, is called (outside the recorder lock) for every hook
	// point BEFORE the event is recorded; it may block or kill the process.
	Gate func(point string, hit int, s *scorch.Scorch)
	// After is called after recording (outside the lock).
	After func(point string, s *scorch.Scorch, ev Event)
	// Quiet drops high-volume events that no trace spec consumes.
	Quiet bool
}

func NewRecorder(path string) *Recorder { return &Recorder{Path: path} }

// ToFile makes the recorder append every event to path immediately.
func (r *Recorder) ToFile(path string) error {
	f, err := os.OpenFile(path, os.O_CREATE|os.O_WRONLY|os.O_APPEND, 0o644)
	if err != nil {
		return err
	}
	r.file = f
	return nil
}

// Emit records a harness-level event (Submit, Return, Read, ...).
func (r *Recorder) Emit(name string, kv map[string]any) Event {
	ev := Event{"ev": name}
	for k, v := range kv {
		ev[k] = v
	}
	r.mu.Lock()
	r.seq++
	ev["eseq"] = r.seq
	if r.counts == nil {
		r.counts = map[string]int{}
	}
	r.counts[name]++
	r.events = append(r.events, ev)
	if r.file != nil {
		b, _ := json.Marshal(ev)
		_, _ = r.file.Write(append(b, '\n'))
	}
	r.mu.Unlock()
	return ev
}

func (r *Recorder) Events() []Event {
	r.mu.Lock()
	defer r.mu.Unlock()
	return append([]Event(nil), r.events...)
}

// Count returns how many events of that name were recorded so far.
func (r *Recorder) Count(name string) int {
	r.mu.Lock()
	defer r.mu.Unlock()
	return r.counts[name]
}

// WaitEvent blocks until n more events named name have been recorded, or the
// timeout expires (returns false).
func (r *Recorder) WaitEvent(name string, n int, timeout time.Duration) bool {
	target := r.Count(name) + n
	deadline := time.Now().Add(timeout)
	for time.Now().Before(deadline) {
		if r.Count(name) >= target {
			return true
		}
		time.Sleep(100 * time.Microsecond)
	}
	return false
}

// WaitCount blocks until at least target events named name were recorded.
func (r *Recorder) WaitCount(name string, target int, timeout time.Duration) bool {
	deadline := time.Now().Add(timeout)
	for time.Now().Before(deadline) {
		if r.Count(name) >= target {
			return true
		}
		time.Sleep(100 * time.Microsecond)
	}
	return false
}

func (r *Recorder) Hits() int { r.mu.Lock(); defer r.mu.Unlock(); return r.hits }

// Install sets the global scorch hook to this recorder.
func (r *Recorder) Install() { scorch.VerifHook = r.Hook }
func Uninstall()             { scorch.VerifHook = nil }

func snapJSON(v scorch.VerifSnap) map[string]any {
	segs := []any{}
	for _, s := range v.Segs {
		segs = append(segs, map[string]any{"id": int(s.ID), "count": int(s.Count), "deleted": int(s.Deleted), "file": s.File})
	}
	return map[string]any{"epoch": int(v.Epoch), "segs": segs, "internal": v.Internal}
}

func strsA(ss []string) []any {
	out := []any{}
	for _, s := range ss {
		out = append(out, s)
	}
	return out
}

func ints(xs []uint64) []any {
	out := []any{}
	for _, x := range xs {
		out = append(out, int(x))
	}
	return out
}

// eventFor turns a hook call into an event (nil = not recorded).
func (r *Recorder) eventFor(point string, s *scorch.Scorch, args []interface{}) (string, map[string]any) {
	arg := func(i int) interface{} {
		if i < len(args) {
			return scorch.VerifArg(args[i])
		}
		return nil
	}
	kv := map[string]any{}
	switch point {
	case "batch.send":
		in := arg(0).(scorch.VerifIntro)
		return "BatchSend", map[string]any{"sid": int(in.ID), "b": BatchOf(in.Internal), "safe": in.Safe}
	case "batch.applied":
		in := arg(0).(scorch.VerifIntro)
		return "BatchApplied", map[string]any{"sid": int(in.ID), "b": BatchOf(in.Internal)}
	case "batch.persisted":
		in := arg(0).(scorch.VerifIntro)
		return "BatchPersisted", map[string]any{"sid": int(in.ID), "b": BatchOf(in.Internal)}
	case "intro.segment":
		in := arg(0).(scorch.VerifIntro)
		return "IntroSegment", map[string]any{"sid": int(in.ID), "b": BatchOf(in.Internal), "hasdata": in.HasData,
			"root": snapJSON(arg(1).(scorch.VerifSnap))}
	case "intro.persist":
		return "IntroPersist", map[string]any{"root": snapJSON(arg(0).(scorch.VerifSnap))}
	case "intro.merge":
		m := arg(0).(scorch.VerifMerge)
		sk := []any{}
		if b, ok := args[2].([]bool); ok {
			for _, x := range b {
				sk = append(sk, x)
			}
		}
		return "IntroMerge", map[string]any{"new": ints(m.NewIDs), "inputs": ints(m.Inputs), "task": intsI(m.InputTask),
			"filemerge": m.FileMerge, "skipped": sk, "root": snapJSON(arg(1).(scorch.VerifSnap))}
	case "persist.take":
		return "PersistTake", map[string]any{"snap": snapJSON(arg(0).(scorch.VerifSnap)), "nacks": args[1], "ncbs": args[2]}
	case "persist.committed":
		sn := arg(0).(scorch.VerifSnap)
		ev := map[string]any{"epoch": int(sn.Epoch), "files": strs(args[1]), "snap": snapJSON(sn)}
		// what the metadata store now names under this epoch (read in the persister's own
		// goroutine right after its commit): segment ids parsed from the file names
		if s != nil {
			if bf, err := s.VerifBoltFiles(); err == nil {
				ids := []any{}
				for _, f := range bf[sn.Epoch] {
					if n, perr := strconv.ParseUint(strings.TrimSuffix(f, ".zap"), 16, 64); perr == nil {
						ids = append(ids, int(n))
					}
				}
				ev["boltids"] = ids
			}
		}
		segids := []any{}
		for _, sg := range sn.Segs {
			segids = append(segids, int(sg.ID))
		}
		ev["segids"] = segids
		return "PersistCommitted", ev
	case "persist.unmarked":
		sn := arg(0).(scorch.VerifSnap)
		return "PersistUnmarked", map[string]any{"epoch": int(sn.Epoch), "files": strs(args[1])}
	case "persist.acked":
		sn := arg(0).(scorch.VerifSnap)
		return "PersistAcked", map[string]any{"epoch": int(sn.Epoch), "nacks": args[1], "ncbs": args[2]}
	case "memmerge.equiv":
		return "MemMergeEquiv", map[string]any{"snap": snapJSON(arg(0).(scorch.VerifSnap)), "equiv": snapJSON(arg(1).(scorch.VerifSnap))}
	case "purge.bolt.plan":
		eps, _ := args[0].([]uint64)
		return "PurgeBoltPlan", map[string]any{"epochs": ints(eps)}
	case "purge.bolt.done":
		return "PurgeBoltDone", map[string]any{"removed": args[0]}
	case "purge.zap":
		// fired inside the purger's rootLock section: the bookkeeping the guard looked at, the
		// root's files and what the metadata store names at this very moment
		ev := map[string]any{"file": args[0]}
		if s != nil {
			st := s.VerifStateLocked()
			copies := []string{}
			for f, n := range st.CopyScheduled {
				if n > 0 {
					copies = append(copies, f)
				}
			}
			sort.Strings(copies)
			named := map[string]bool{}
			if bf, err := s.VerifBoltFiles(); err == nil {
				for _, fs := range bf {
					for _, f := range fs {
						named[f] = true
					}
				}
			}
			nl := []string{}
			for f := range named {
				nl = append(nl, f)
			}
			sort.Strings(nl)
			ev["rootfiles"], ev["inel"], ev["copysched"], ev["named"] = strsA(st.RootFiles), strsA(st.Ineligible), strsA(copies), strsA(nl)
		}
		return "PurgeZap", ev
	case "purge.end":
		return "PurgeEnd", kv
	case "merge.take":
		return "MergeTake", map[string]any{"snap": snapJSON(arg(0).(scorch.VerifSnap))}
	case "merge.plan":
		tasks := []any{}
		if mp, ok := args[1].(*mergeplan.MergePlan); ok && mp != nil {
			for _, t := range mp.Tasks {
				ids := []any{}
				for _, sg := range t.Segments {
					ids = append(ids, int(sg.Id()))
				}
				tasks = append(tasks, ids)
			}
		}
		return "MergePlan", map[string]any{"epoch": int(arg(0).(scorch.VerifSnap).Epoch), "tasks": tasks}
	case "merge.marked":
		return "MergeMarked", map[string]any{"new": args[0], "inputs": strs(args[1])}
	case "merge.written":
		return "MergeWritten", map[string]any{"new": args[0], "inputs": strs(args[1])}
	case "merge.beforeIntro", "memmerge.beforeIntro":
		// the full input list: the introducer consumes mergedSegHistory while it works
		m := arg(0).(scorch.VerifMerge)
		return "MergeRequest", map[string]any{"new": ints(m.NewIDs), "inputs": ints(m.Inputs), "task": intsI(m.InputTask), "filemerge": m.FileMerge}
	case "merge.introduced":
		m := arg(0).(scorch.VerifMerge)
		return "MergeIntroduced", map[string]any{"new": ints(m.NewIDs), "skipped": bools(args[1])}
	case "merge.cleanup":
		return "MergeCleanup", map[string]any{"err": arg(0) != nil}
	case "memmerge.marked":
		return "MemMergeMarked", map[string]any{"new": args[0]}
	case "memmerge.written":
		return "MemMergeWritten", map[string]any{"new": args[0]}
	case "memmerge.introduced":
		m := arg(0).(scorch.VerifMerge)
		return "MemMergeIntroduced", map[string]any{"new": ints(m.NewIDs), "skipped": bools(args[1])}
	case "eligible":
		return "Eligible", map[string]any{"epoch": int(args[0].(uint64))}
	case "copy.open":
		if is, ok := args[0].(*scorch.IndexSnapshot); ok && is != nil {
			return "CopyOpen", map[string]any{"snap": snapJSON(scorch.VerifSnapshot(is))}
		}
		return "", nil
	case "copy.close":
		return "CopyClose", map[string]any{"snap": snapJSON(arg(0).(scorch.VerifSnap))}
	case "copy.file":
		return "CopyFile", map[string]any{"file": filepath.Base(fmt.Sprint(args[0]))}
	case "copy.memfile":
		return "CopyMemFile", map[string]any{"file": filepath.Base(fmt.Sprint(args[0]))}
	case "close.begin":
		return "CloseBegin", kv
	case "close.waited":
		return "CloseWaited", kv
	case "recovered":
		return "Loaded", map[string]any{"snap": snapJSON(arg(0).(scorch.VerifSnap))}
	}
	return "", nil
}

func strs(v interface{}) []any {
	out := []any{}
	if ss, ok := v.([]string); ok {
		for _, s := range ss {
			out = append(out, s)
		}
	}
	return out
}
func bools(v interface{}) []any {
	out := []any{}
	if ss, ok := v.([]bool); ok {
		for _, s := range ss {
			out = append(out, s)
		}
	}
	return out
}
func intsI(xs []int) []any {
	out := []any{}
	for _, x := range xs {
		out = append(out, x)
	}
	return out
}

// BatchOf extracts the harness batch number from a batch's internal ops
// (every harness batch sets internal key "seq" to its number; 0 = not a
// harness batch, e.g. the mapping written at index creation).
func BatchOf(internal map[string]string) int {
	if v, ok := internal["seq"]; ok {
		n, _ := strconv.Atoi(strings.TrimPrefix(v, "i"))
		return n
	}
	return 0
}

// Hook is the scorch.VerifHook implementation.
func (r *Recorder) Hook(point string, s *scorch.Scorch, args ...interface{}) {
	if r.Path != "" && (s == nil || s.VerifPath() != r.Path) {
		return
	}
	// prepareBoltSnapshot serves both the persister (d == nil) and CopyTo (d != nil):
	// give the two uses distinct point names
	if (point == "copy.file" || point == "persist.file") && len(args) > 1 {
		toDir, _ := args[1].(bool)
		switch {
		case point == "copy.file" && !toDir:
			point = "persist.keepfile"
		case point == "persist.file" && toDir:
			point = "copy.memfile"
		}
	}
	if point == "reader.open" {
		// handed-out snapshots are not steps of the index's own machinery (StatsMap, every
		// read and every batch take one): they do not count as hits - progress detection and
		// crash-point numbering are unaffected - but the gate may pause them
		if g := r.Gate; g != nil {
			g(point, 0, s)
		}
		return
	}
	r.mu.Lock()
	r.hits++
	hit := r.hits
	r.mu.Unlock()
	if g := r.Gate; g != nil {
		g(point, hit, s)
	}
	name, kv := r.eventFor(point, s, args)
	if name == "" {
		return
	}
	kv["hit"] = hit
	ev := r.Emit(name, kv)
	if a := r.After; a != nil {
		a(point, s, ev)
	}
}

// ---- on-disk inspection (independent of a live Scorch instance)

// BoltState reads root.bolt of an index directory that no process has open
// for writing: epoch -> zap file names and the internal values per epoch.
type BoltEpoch struct {
	Epoch    int               `json:"epoch"`
	Files    []string          `json:"files"`
	Internal map[string]string `json:"internal"`
}

// decodeEpochKey decodes scorch's ascending uvarint encoding of an epoch key.
func decodeEpochKey(b []byte) (uint64, bool) {
	const intZero, intSmall = 136, 109
	if len(b) == 0 {
		return 0, false
	}
	length := int(b[0]) - intZero
	if length < 0 {
		return 0, false
	}
	b = b[1:]
	if length <= intSmall {
		return uint64(length), true
	}
	length -= intSmall
	if length > 8 || len(b) < length {
		return 0, false
	}
	var v uint64
	for _, t := range b[:length] {
		v = (v << 8) | uint64(t)
	}
	return v, true
}

// ReadBolt opens <dir>/root.bolt read-only (the index must not be open for
// writing in this process) and lists the persisted epochs, newest first,
// with the zap file names each names and its internal "seq" value.
func ReadBolt(storeDir string) ([]BoltEpoch, error) {
	db, err := bolt.Open(filepath.Join(storeDir, "root.bolt"), 0o600, &bolt.Options{ReadOnly: true})
	if err != nil {
		return nil, err
	}
	defer db.Close()
	var out []BoltEpoch
	err = db.View(func(tx *bolt.Tx) error {
		snaps := tx.Bucket(util.BoltSnapshotsBucket)
		if snaps == nil {
			return nil
		}
		c := snaps.Cursor()
		for k, _ := c.First(); k != nil; k, _ = c.Next() {
			sb := snaps.Bucket(k)
			if sb == nil {
				continue
			}
			ep, ok := decodeEpochKey(k)
			if !ok {
				continue
			}
			be := BoltEpoch{Epoch: int(ep), Files: []string{}, Internal: map[string]string{}}
			sc := sb.Cursor()
			for sk, _ := sc.First(); sk != nil; sk, _ = sc.Next() {
				if sk[0] == util.BoltMetaDataKey[0] {
					continue
				}
				if sk[0] == util.BoltInternalKey[0] {
					if ib := sb.Bucket(sk); ib != nil {
						if v := ib.Get([]byte("seq")); v != nil {
							be.Internal["seq"] = string(v)
						}
					}
					continue
				}
				seg := sb.Bucket(sk)
				if seg == nil {
					continue
				}
				if p := seg.Get(util.BoltPathKey); p != nil {
					be.Files = append(be.Files, string(p))
				}
			}
			sort.Strings(be.Files)
			out = append(out, be)
		}
		return nil
	})
	sort.Slice(out, func(i, j int) bool { return out[i].Epoch > out[j].Epoch })
	return out, err
}

// ZapFiles lists the *.zap files of a directory.
func ZapFiles(storeDir string) []string {
	ents, _ := os.ReadDir(storeDir)
	var out []string
	for _, e := range ents {
		if strings.HasSuffix(e.Name(), ".zap") {
			out = append(out, e.Name())
		}
	}
	sort.Strings(out)
	return out
}
