package bx

import (
	"bytes"
	"encoding/binary"
	"fmt"
	"sort"

	bleve "github.com/blevesearch/bleve/v2"
	"github.com/blevesearch/bleve/v2/index/upsidedown"
)

// UpsidedownRows dumps every KV row of an upsidedown index and projects them
// onto the vocabulary of spec/trace/JudgeUpsidedown.tla (nil, nil for other
// index types).
func UpsidedownRows(idx bleve.Index) (map[string]any, error) {
	adv, err := idx.Advanced()
	if err != nil {
		return nil, err
	}
	udc, ok := adv.(*upsidedown.UpsideDownCouch)
	if !ok {
		return nil, nil
	}
	rd, err := udc.Reader()
	if err != nil {
		return nil, err
	}
	defer rd.Close()
	ir, ok := rd.(*upsidedown.IndexReader)
	if !ok {
		return nil, fmt.Errorf("reader is %T", rd)
	}
	n, err := ir.DocCount()
	if err != nil {
		return nil, err
	}
	tf, dict, back := [][]any{}, [][]any{}, [][]any{}
	fields := map[int]string{}
	splitTF := func(k []byte) (int, string, string, bool) {
		if len(k) < 4 || k[0] != 't' {
			return 0, "", "", false
		}
		f := int(binary.LittleEndian.Uint16(k[1:3]))
		rest := k[3:]
		i := bytes.IndexByte(rest, 0xff)
		if i < 0 {
			return 0, "", "", false
		}
		return f, string(rest[:i]), string(rest[i+1:]), true
	}
	for row := range ir.DumpAll() {
		switch r := row.(type) {
		case error:
			return nil, r
		case *upsidedown.TermFrequencyRow:
			if f, t, d, ok := splitTF(r.Key()); ok {
				tf = append(tf, []any{f, t, d})
			}
		case *upsidedown.DictionaryRow:
			k := r.Key()
			if len(k) >= 3 {
				cnt, _ := binary.Uvarint(r.Value())
				dict = append(dict, []any{int(binary.LittleEndian.Uint16(k[1:3])), string(k[3:]), int(cnt)})
			}
		case *upsidedown.BackIndexRow:
			k := r.Key()
			terms := [][]any{}
			for _, tk := range r.AllTermKeys() {
				if f, t, _, ok := splitTF(tk); ok {
					terms = append(terms, []any{f, t})
				}
			}
			sort.Slice(terms, func(i, j int) bool { return fmt.Sprint(terms[i]) < fmt.Sprint(terms[j]) })
			back = append(back, []any{string(k[1:]), terms})
		case *upsidedown.FieldRow:
			k := r.Key()
			if len(k) >= 3 {
				v := r.Value()
				if i := bytes.IndexByte(v, 0xff); i >= 0 {
					v = v[:i]
				}
				fields[int(binary.LittleEndian.Uint16(k[1:3]))] = string(v)
			}
		}
	}
	vfield := -1
	for i, name := range fields {
		if name == "v" {
			vfield = i
		}
	}
	return map[string]any{"tf": tf, "dict": dict, "back": back, "count": int(n), "vfield": vfield}, nil
}
