// Package bx holds helpers shared by the index-level checks: the index
// configurations a property quantifies over, the document encoding of
// (id, version) pairs and the projection of a real index onto the abstract
// state of spec/Index.tla.
package bx

import (
	"context"
	"fmt"
	"path/filepath"
	"sort"
	"time"

	bleve "github.com/blevesearch/bleve/v2"
	"github.com/blevesearch/bleve/v2/index/scorch"
	"github.com/blevesearch/bleve/v2/index/upsidedown"
	"github.com/blevesearch/bleve/v2/index/upsidedown/store/boltdb"
	"github.com/blevesearch/bleve/v2/index/upsidedown/store/goleveldb"
	"github.com/blevesearch/bleve/v2/index/upsidedown/store/gtreap"
	"github.com/blevesearch/bleve/v2/index/upsidedown/store/moss"
	"github.com/blevesearch/bleve/v2/mapping"
	index "github.com/blevesearch/bleve_index_api"
)

// Config is one index type / KV store / segment format configuration.
type Config struct {
	Name     string
	Type     string
	KV       string
	KVConfig map[string]interface{}
	Disk     bool // has a directory: supports close/reopen
	Scorch   bool
}

func (c Config) New(dir string, m mapping.IndexMapping) (bleve.Index, error) {
	path := ""
	if c.Disk {
		path = filepath.Join(dir, "idx")
	}
	var kvc map[string]interface{}
	if c.KVConfig != nil {
		kvc = map[string]interface{}{}
		for k, v := range c.KVConfig {
			kvc[k] = v
		}
	}
	return bleve.NewUsing(path, m, c.Type, c.KV, kvc)
}

func (c Config) Reopen(dir string) (bleve.Index, error) {
	return bleve.Open(filepath.Join(dir, "idx"))
}

var (
	ScorchDisk       = Config{Name: "scorch-disk", Type: scorch.Name, KV: scorch.Name, Disk: true, Scorch: true}
	ScorchDiskUnsafe = Config{Name: "scorch-disk-unsafe", Type: scorch.Name, KV: scorch.Name, Disk: true, Scorch: true,
		KVConfig: map[string]interface{}{"unsafe_batch": true}}
	ScorchMem   = Config{Name: "scorch-mem", Type: scorch.Name, KV: scorch.Name, Scorch: true}
	ScorchZap15 = Config{Name: "scorch-disk-zap15", Type: scorch.Name, KV: scorch.Name, Disk: true, Scorch: true,
		KVConfig: map[string]interface{}{"forceSegmentType": "zap", "forceSegmentVersion": 15}}
	ScorchZap16 = Config{Name: "scorch-disk-zap16", Type: scorch.Name, KV: scorch.Name, Disk: true, Scorch: true,
		KVConfig: map[string]interface{}{"forceSegmentType": "zap", "forceSegmentVersion": 16}}
	ScorchWorkers3 = Config{Name: "scorch-disk-3workers", Type: scorch.Name, KV: scorch.Name, Disk: true, Scorch: true,
		KVConfig: map[string]interface{}{"unsafe_batch": true, "scorchPersisterOptions": map[string]interface{}{
			"NumPersisterWorkers": 3, "MaxSizeInMemoryMergePerWorker": 1}}}
	UpsideGtreap  = Config{Name: "upsidedown-gtreap", Type: upsidedown.Name, KV: gtreap.Name}
	UpsideBolt    = Config{Name: "upsidedown-boltdb", Type: upsidedown.Name, KV: boltdb.Name, Disk: true}
	UpsideLevelDB = Config{Name: "upsidedown-goleveldb", Type: upsidedown.Name, KV: goleveldb.Name, Disk: true}
	UpsideMoss    = Config{Name: "upsidedown-moss", Type: upsidedown.Name, KV: moss.Name}
)

// DocFor is the document written for version ver of any id. Odd versions
// carry an extra field so that a stale field of an older version is visible.
func DocFor(ver int) map[string]interface{} {
	d := map[string]interface{}{
		"v": fmt.Sprintf("v%d", ver),
		"t": "tok",
	}
	if ver%2 == 1 {
		d["x"] = fmt.Sprintf("x%d", ver)
	}
	// an array-valued stored field whose length changes from version to version
	// (1,0,2,3,1,...): a shorter array must not keep elements of an older version
	if n := TagsLen(ver); n > 0 {
		tags := make([]interface{}, n)
		for i := range tags {
			tags[i] = fmt.Sprintf("g%d-%d", ver, i)
		}
		d["tags"] = tags
	}
	return d
}

// TagsLen is the length of the "tags" array of version ver.
func TagsLen(ver int) int { return []int{3, 1, 0, 2}[ver%4] }

// FieldsFor is the stored-field projection expected for version ver.
func FieldsFor(ver int) map[string]string {
	out := map[string]string{}
	for k, v := range DocFor(ver) {
		switch x := v.(type) {
		case string:
			out[k] = x
		case []interface{}:
			for i, e := range x {
				out[fmt.Sprintf("%s[%d]", k, i)] = e.(string)
			}
		}
	}
	return out
}

func IntVal(v int) []byte { return []byte(fmt.Sprintf("i%d", v)) }

// Obs is the projection of a real index onto the abstract state.
type Obs struct {
	Count    uint64                       `json:"count"`
	Docs     map[string]map[string]string `json:"docs"`     // id -> stored fields (absent id: no entry)
	MatchAll []string                     `json:"matchall"` // ids returned by match_all, sorted, duplicates kept
	DocIDs   []string                     `json:"docids"`   // ids returned by a doc-id query over the id space
	Internal map[string]string            `json:"internal"` // key -> value (absent: no entry)
}

// Observe reads the abstract state through the public API.
func Observe(idx bleve.Index, ids, keys []string) (*Obs, error) {
	o := &Obs{Docs: map[string]map[string]string{}, Internal: map[string]string{}}
	var err error
	if o.Count, err = idx.DocCount(); err != nil {
		return nil, fmt.Errorf("DocCount: %v", err)
	}
	for _, id := range ids {
		d, err := idx.Document(id)
		if err != nil {
			return nil, fmt.Errorf("Document(%s): %v", id, err)
		}
		if d == nil {
			continue
		}
		fs := map[string]string{}
		d.VisitFields(func(f index.Field) {
			if f.Name() == "_id" {
				return
			}
			name := f.Name()
			if ap := f.ArrayPositions(); len(ap) > 0 {
				name = fmt.Sprintf("%s%v", name, ap) // tags[0], tags[1], ...
			}
			if _, dup := fs[name]; dup {
				name = name + "+dup"
			}
			fs[name] = string(f.Value())
		})
		o.Docs[id] = fs
	}
	req := bleve.NewSearchRequestOptions(bleve.NewMatchAllQuery(), 1000, 0, false)
	res, err := idx.Search(req)
	if err != nil {
		return nil, fmt.Errorf("match_all: %v", err)
	}
	for _, h := range res.Hits {
		o.MatchAll = append(o.MatchAll, h.ID)
	}
	sort.Strings(o.MatchAll)
	if int(res.Total) != len(res.Hits) {
		return nil, fmt.Errorf("match_all Total=%d but %d hits", res.Total, len(res.Hits))
	}
	req = bleve.NewSearchRequestOptions(bleve.NewDocIDQuery(ids), 1000, 0, false)
	res, err = idx.Search(req)
	if err != nil {
		return nil, fmt.Errorf("docid query: %v", err)
	}
	for _, h := range res.Hits {
		o.DocIDs = append(o.DocIDs, h.ID)
	}
	sort.Strings(o.DocIDs)
	for _, k := range keys {
		v, err := idx.GetInternal([]byte(k))
		if err != nil {
			return nil, fmt.Errorf("GetInternal(%s): %v", k, err)
		}
		if v != nil {
			o.Internal[k] = string(v)
		}
	}
	return o, nil
}

// Expected builds the Obs the abstract state (docs: id->ver, internal:
// key->val, 0 = absent) stands for.
func Expected(docs map[string]int, internal map[string]int) *Obs {
	o := &Obs{Docs: map[string]map[string]string{}, Internal: map[string]string{}}
	for id, v := range docs {
		if v != 0 {
			o.Count++
			o.Docs[id] = FieldsFor(v)
			o.MatchAll = append(o.MatchAll, id)
		}
	}
	sort.Strings(o.MatchAll)
	o.DocIDs = append(o.DocIDs, o.MatchAll...)
	for k, v := range internal {
		if v != 0 {
			o.Internal[k] = string(IntVal(v))
		}
	}
	return o
}

// Diff returns "" when the observation equals the expectation, else a
// description of the first difference.
func Diff(exp, got *Obs) string {
	if exp.Count != got.Count {
		return fmt.Sprintf("DocCount: expected %d got %d", exp.Count, got.Count)
	}
	if fmt.Sprint(exp.MatchAll) != fmt.Sprint(got.MatchAll) {
		return fmt.Sprintf("match_all ids: expected %v got %v", exp.MatchAll, got.MatchAll)
	}
	if fmt.Sprint(exp.DocIDs) != fmt.Sprint(got.DocIDs) {
		return fmt.Sprintf("doc-id query ids: expected %v got %v", exp.DocIDs, got.DocIDs)
	}
	for id, f := range exp.Docs {
		g, ok := got.Docs[id]
		if !ok {
			return fmt.Sprintf("Document(%s): expected %v got nil", id, f)
		}
		if fmt.Sprint(f) != fmt.Sprint(g) {
			return fmt.Sprintf("Document(%s): expected stored fields %v got %v", id, f, g)
		}
	}
	for id, g := range got.Docs {
		if _, ok := exp.Docs[id]; !ok {
			return fmt.Sprintf("Document(%s): expected nil got %v", id, g)
		}
	}
	for k, v := range exp.Internal {
		if got.Internal[k] != v {
			return fmt.Sprintf("GetInternal(%s): expected %q got %q", k, v, got.Internal[k])
		}
	}
	for k, v := range got.Internal {
		if _, ok := exp.Internal[k]; !ok {
			return fmt.Sprintf("GetInternal(%s): expected absent got %q", k, v)
		}
	}
	return ""
}

// AsScorch returns the scorch engine behind an index (nil otherwise).
func AsScorch(idx bleve.Index) *scorch.Scorch {
	adv, err := idx.Advanced()
	if err != nil {
		return nil
	}
	sc, _ := adv.(*scorch.Scorch)
	return sc
}

// WaitPersisted blocks until the current root epoch has been persisted (disk
// scorch) or the timeout expires; returns false on timeout.
func WaitPersisted(sc *scorch.Scorch, timeout time.Duration) bool {
	deadline := time.Now().Add(timeout)
	for time.Now().Before(deadline) {
		m := sc.StatsMap()
		cur, _ := m["CurRootEpoch"].(uint64)
		last, _ := m["LastPersistedEpoch"].(uint64)
		if last >= cur {
			return true
		}
		time.Sleep(2 * time.Millisecond)
	}
	return false
}

func ForceMerge(sc *scorch.Scorch) error {
	ctx, cancel := context.WithTimeout(context.Background(), 60*time.Second)
	defer cancel()
	return sc.ForceMerge(ctx, nil)
}
