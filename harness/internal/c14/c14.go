// Package c14: "An online backup is a consistent point-in-time copy".
//
// Model decides: spec/ScorchDisk.tla config copy — COpen / CFile / CClose
// interleaved with batches, persister, merger and purger: CopyIsPrefix,
// CopyFilesOnDisk, HeldAreReplays.
//
// Code is bound by: in-process runs with concurrent writers, forced merges and
// the hold-rule scheduler parking the copy between its files until purge
// rounds have run; every copy destination is opened with bleve.Open and TLC
// (TraceCrash.tla) judges: content = replay of a prefix of the introduction
// order that contains every batch returned before the copy began; the source
// still holds everything afterwards.
package c14

import (
	"bytes"
	"context"
	"encoding/json"
	"fmt"
	"io"
	"math/rand"
	"os"
	"os/exec"
	"path/filepath"
	"strconv"
	"strings"
	"sync"
	"time"

	bleve "github.com/blevesearch/bleve/v2"

	"verif/harness/internal/core"
	"verif/harness/internal/sx"
)

func init() {
	core.Register(&core.Check{Prop: "C14", Level: "model_checking", Run: run})
	core.RegisterChild("failedcopy", failedCopyChild)
}

// failedCopyChild runs, in a process of its own (a source that is damaged by a
// failed backup may take the whole process down): batches, a backup whose
// destination refuses the second file, then searches, one more batch and a full
// observation of the source.  args: <base dir> <records.json> <seed>
func failedCopyChild(args []string) int {
	if len(args) < 3 {
		return 2
	}
	base, outFile := args[0], args[1]
	seed, _ := strconv.ParseInt(args[2], 10, 64)
	rng := rand.New(rand.NewSource(seed))
	wl := sx.RandomWorkload(rng, 6, 1, seed%2 == 0, nil)
	r, err := sx.Start(filepath.Join(base, "idx"), wl, seed, 0)
	if err != nil {
		fmt.Fprintln(os.Stderr, "HARNESS-ERROR: start:", err)
		return 2
	}
	if err := r.RunWriters(); err != nil {
		fmt.Fprintln(os.Stderr, "HARNESS-ERROR: batches:", err)
		return 2
	}
	if seed%3 != 0 {
		r.Quiesce(20 * time.Second) // idle source: the copied snapshot is still the root
	}
	res := map[string]any{"copy_failed": false}
	dest := filepath.Join(base, "copy-fail")
	fd := &failingDir{base: dest, failAt: 2}
	if seed%2 == 1 {
		// the destination runs out of space in the middle of a segment file
		fd = &failingDir{base: dest, failAt: 1 << 30, failAfterBytes: 600}
	}
	r.Rec.Emit("CopyBegin", nil)
	cerr := r.Idx.(bleve.IndexCopyable).CopyTo(fd)
	if cerr == nil && fd.faults > 0 {
		// a fault was injected and CopyTo reports success: then the destination must open
		rec, _, cidx := sx.RecoveredRecord(dest, "copy", nil)
		if cidx != nil {
			_ = cidx.Close()
		}
		r.Rec.Emit("Recovered", rec)
		res["success_despite_fault"] = true
	}
	if cerr != nil {
		// a second backup into the SAME directory (now healthy) must produce a complete copy
		r.Rec.Emit("CopyBegin", nil)
		if err := r.Idx.(bleve.IndexCopyable).CopyTo(bleve.FileSystemDirectory(dest)); err != nil {
			res["retry_err"] = err.Error()
		} else {
			rec, _, cidx := sx.RecoveredRecord(dest, "copy", nil)
			if cidx != nil {
				_ = cidx.Close()
			}
			r.Rec.Emit("Recovered", rec)
			res["retried"] = true
		}
	}
	if err := cerr; err != nil {
		res["copy_failed"] = true
		for k := 0; k < 3; k++ {
			if _, err := sx.SearchContent(r.Idx); err != nil {
				res["search_err"] = err.Error()
			}
		}
		if _, err := r.Submit(sx.BatchSpec{W: 1, Puts: []string{"a"}, Dels: []string{}}); err != nil {
			res["batch_err"] = err.Error()
		}
		r.Quiesce(20 * time.Second)
		if _, err := sx.SearchContent(r.Idx); err != nil {
			res["search_err"] = err.Error()
		}
	}
	if cont, err := sx.ObserveContent(r.Idx); err == nil {
		r.Rec.Emit("SourceAfter", map[string]any{"docs": cont.Docs, "seq": cont.Seq, "count": cont.Count})
	} else {
		res["observe_err"] = err.Error()
	}
	if err := r.Close(); err != nil {
		res["close_err"] = err.Error()
	}
	res["records"] = sx.CrashRecords(r.Rec.Events())
	b, _ := json.Marshal(res)
	if err := os.WriteFile(outFile, b, 0o644); err != nil {
		return 2
	}
	return 0
}

// failedCopyRuns executes the failed-backup scenario in child processes.  A child
// that dies (fault, panic) after the failed backup is the source being affected.
func failedCopyRuns(c *core.Ctx) ([]*outcome, bool) {
	var outs []*outcome
	healthy := true
	for k := 0; k < c.Pick(3, 9); k++ {
		seed := c.Seed*10 + int64(k)
		name := fmt.Sprintf("failed-copy-child-%d", k)
		crashes := 0
		var firstLine string
		var res map[string]any
		for attempt := 0; attempt < 2; attempt++ {
			base := c.TempDir("c14f")
			outFile := filepath.Join(base, "records.json")
			ctx, cancel := context.WithTimeout(context.Background(), 120*time.Second)
			cmd := exec.CommandContext(ctx, core.SelfExe(), "child:failedcopy", base, outFile, strconv.FormatInt(seed, 10))
			var stderr bytes.Buffer
			cmd.Stderr = &stderr
			err := cmd.Run()
			timedOut := ctx.Err() == context.DeadlineExceeded
			cancel()
			if err == nil {
				if b, e := os.ReadFile(outFile); e == nil {
					_ = json.Unmarshal(b, &res)
				}
				os.RemoveAll(base)
				break
			}
			os.RemoveAll(base)
			txt := stderr.String()
			if timedOut || strings.Contains(txt, "HARNESS-ERROR:") {
				c.Inconclusive(fmt.Sprintf("%s: child did not run: %v %s", name, err, firstLineOf(txt)))
				return outs, false
			}
			if strings.Contains(txt, "fatal error") || strings.Contains(txt, "panic:") || strings.Contains(txt, "SIGSEGV") {
				crashes++
				if firstLine == "" {
					firstLine = firstLineOf(txt)
				}
				continue
			}
			c.Inconclusive(fmt.Sprintf("%s: child failed for an unknown reason: %v %s", name, err, firstLineOf(txt)))
			return outs, false
		}
		c.Eval(1)
		if crashes == 2 {
			healthy = false
			c.Violation("c14/source-broken-after-failed-copy", fmt.Sprintf("%s: the process using the source index crashed after a backup failed half way (destination refused its second file), twice in two runs: %s", name, firstLine),
				map[string]any{"scenario": name, "seed": seed})
			continue
		}
		if crashes == 1 {
			c.Inconclusive(fmt.Sprintf("%s: child crashed once, not on the second run: %s", name, firstLine))
			return outs, false
		}
		if res == nil {
			continue
		}
		if e, ok := res["retry_err"].(string); ok && e != "" {
			healthy = false
			c.Violation("c14/copy-failed", fmt.Sprintf("%s: a second CopyTo into the directory of a failed one fails: %s", name, e), map[string]any{"scenario": name, "seed": seed})
		}
		for _, k := range []string{"search_err", "batch_err", "observe_err", "close_err"} {
			if e, ok := res[k].(string); ok && e != "" {
				healthy = false
				c.Violation("c14/source-broken-after-failed-copy", fmt.Sprintf("%s: %s on the source after a failed CopyTo: %s", name, k, e), map[string]any{"scenario": name, "seed": seed})
			}
		}
		if recs, ok := res["records"].([]any); ok {
			outs = append(outs, &outcome{Name: name, Records: recs})
		}
		if f, _ := res["copy_failed"].(bool); f {
			c.AddExtra("failed_backups_followed_by_use_of_the_source", 1)
		}
	}
	return outs, healthy
}

func firstLineOf(s string) string {
	for _, l := range strings.Split(s, "\n") {
		if strings.TrimSpace(l) != "" {
			if len(l) > 200 {
				l = l[:200]
			}
			return l
		}
	}
	return ""
}

var failedCopyInProcess = true

type outcome struct {
	Name    string
	Records []any
	Copies  int
}

func runOne(c *core.Ctx, name string, wl sx.Workload, seed int64) (*outcome, error) {
	base := c.TempDir("c14")
	defer os.RemoveAll(base)
	dir := filepath.Join(base, "idx")
	r, err := sx.Start(dir, wl, seed, 0.4)
	if err != nil {
		return nil, err
	}
	rng := rand.New(rand.NewSource(seed))
	r.SetHolds(sx.DefaultHolds)
	r.Think = 3 * time.Millisecond
	stop := make(chan struct{})
	var wg sync.WaitGroup
	wg.Add(1)
	go func() {
		defer wg.Done()
		for {
			select {
			case <-stop:
				return
			default:
			}
			time.Sleep(time.Duration(2000+rng.Intn(6000)) * time.Microsecond)
			_ = r.ForceMerge()
		}
	}()
	out := &outcome{Name: name}
	var copyErrs []string
	wg.Add(1)
	go func() {
		defer wg.Done()
		n := 0
		for {
			select {
			case <-stop:
				return
			default:
			}
			time.Sleep(time.Duration(500+rng.Intn(5000)) * time.Microsecond)
			dest := filepath.Join(base, fmt.Sprintf("copy-%d", n))
			n++
			r.Rec.Emit("CopyBegin", nil)
			cp := r.Idx.(bleve.IndexCopyable)
			if err := cp.CopyTo(bleve.FileSystemDirectory(dest)); err != nil {
				copyErrs = append(copyErrs, err.Error())
				r.Rec.Emit("Recovered", map[string]any{"kind": "copy", "min": 0, "point": 0, "opened": false, "docs": []any{}, "seq": 0, "count": 0, "matchall": []any{}, "err": err.Error()})
				continue
			}
			rec, _, idx := sx.RecoveredRecord(dest, "copy", nil)
			if idx != nil {
				_ = idx.Close()
			}
			r.Rec.Emit("Recovered", rec)
			out.Copies++
			_ = os.RemoveAll(dest)
		}
	}()
	werr := r.RunWriters()
	close(stop)
	wg.Wait()
	if werr != nil {
		_ = r.Close()
		return nil, fmt.Errorf("%s: batch failed: %v", name, werr)
	}
	// one last copy after all writers returned: must contain everything
	r.Rec.Emit("CopyBegin", nil)
	dest := filepath.Join(base, "copy-final")
	if err := r.Idx.(bleve.IndexCopyable).CopyTo(bleve.FileSystemDirectory(dest)); err != nil {
		r.Rec.Emit("Recovered", map[string]any{"kind": "copy", "min": 0, "point": 0, "opened": false, "docs": []any{}, "seq": 0, "count": 0, "matchall": []any{}, "err": err.Error()})
	} else {
		rec, _, idx := sx.RecoveredRecord(dest, "copy", nil)
		if idx != nil {
			_ = idx.Close()
		}
		r.Rec.Emit("Recovered", rec)
		out.Copies++
	}
	// a backup that FAILS half way (destination refuses the second file) must
	// leave the source untouched as well (in-process only when the child-process
	// runs of the same scenario were healthy: a damaged source can kill the process)
	if failedCopyInProcess {
		func() {
			defer func() {
				if p := recover(); p != nil {
					c.Violation("c14/source-broken-after-failed-copy", fmt.Sprintf("%s: source index panicked after a failed CopyTo: %v", name, p), map[string]any{"scenario": name})
				}
			}()
			fd := &failingDir{base: filepath.Join(base, "copy-fail"), failAt: 2}
			if err := r.Idx.(bleve.IndexCopyable).CopyTo(fd); err == nil {
				return // nothing failed (fewer than 2 files): not this scenario
			}
			for k := 0; k < 3; k++ {
				if _, err := sx.SearchContent(r.Idx); err != nil {
					c.Violation("c14/source-broken-after-failed-copy", fmt.Sprintf("%s: search on the source failed after a failed CopyTo: %v", name, err), map[string]any{"scenario": name})
					return
				}
			}
			if _, err := r.Submit(sx.BatchSpec{W: 1, Puts: []string{"a"}, Dels: []string{}}); err != nil {
				c.Violation("c14/source-broken-after-failed-copy", fmt.Sprintf("%s: batch on the source failed after a failed CopyTo: %v", name, err), map[string]any{"scenario": name})
			}
		}()
	}
	// the source is unaffected
	if cont, err := sx.ObserveContent(r.Idx); err == nil {
		r.Rec.Emit("SourceAfter", map[string]any{"docs": cont.Docs, "seq": cont.Seq, "count": cont.Count})
	}
	st := r.Sc.VerifStateNow()
	if len(st.CopyScheduled) != 0 {
		c.Violation("c14/copy-scheduled-leak", fmt.Sprintf("%s: copyScheduled not empty after all copies ended: %v", name, st.CopyScheduled), map[string]any{"scenario": name, "seed": seed})
	}
	if err := r.Close(); err != nil {
		return nil, err
	}
	out.Records = sx.CrashRecords(r.Rec.Events())
	return out, nil
}

// failingDir is a backup destination whose failAt-th file cannot be created
// (disk full, permission, ...).
type failingDir struct {
	base           string
	failAt         int
	failAfterBytes int // > 0: every *.zap writer fails once it has taken that many bytes
	n              int
	faults         int
	mu             sync.Mutex
}

type limitedWriter struct {
	f    *os.File
	left int
	d    *failingDir
}

func (w *limitedWriter) Write(p []byte) (int, error) {
	if len(p) > w.left {
		n, _ := w.f.Write(p[:w.left])
		w.left = 0
		w.d.mu.Lock()
		w.d.faults++
		w.d.mu.Unlock()
		return n, fmt.Errorf("no space left on device (injected)")
	}
	w.left -= len(p)
	return w.f.Write(p)
}

func (w *limitedWriter) Close() error { return w.f.Close() }

func (d *failingDir) GetWriter(path string) (io.WriteCloser, error) {
	d.mu.Lock()
	d.n++
	n := d.n
	d.mu.Unlock()
	if n >= d.failAt {
		d.mu.Lock()
		d.faults++
		d.mu.Unlock()
		return nil, fmt.Errorf("no space left on device (injected)")
	}
	full := filepath.Join(d.base, path)
	if err := os.MkdirAll(filepath.Dir(full), 0o700); err != nil {
		return nil, err
	}
	f, err := os.OpenFile(full, os.O_RDWR|os.O_CREATE, 0o600)
	if err != nil {
		return nil, err
	}
	if d.failAfterBytes > 0 && strings.HasSuffix(path, ".zap") {
		return &limitedWriter{f: f, left: d.failAfterBytes, d: d}, nil
	}
	return f, nil
}

func run(c *core.Ctx) error {
	c.SetRule("one evaluation = one online copy (CopyTo) taken while 2 writers, forced merges, the persister and the purger run (copy parked between its files by hold rules until purge rounds ran), destination opened with bleve.Open and fully observed; TLC judges each against the replay of the recorded introduction order. " +
		"distinct_nontrivial = distinct (prefix length, content) pairs of copies taken when at least one batch had been introduced")
	mcfg := "ScorchDisk_mc_copy_quick.cfg"
	if c.Thorough() {
		mcfg = "ScorchDisk_mc_copy.cfg"
	}
	if _, ok := c.ModelCheck("ScorchDisk", mcfg, core.Workers(8), core.Timeout(25*time.Minute), core.Heap(8000)); !ok {
		return nil
	}
	// an index made by the offline builder and then used online: the copy must protect the
	// builder's file under its real name. The design "a file is named after its segment id"
	// is refuted (CopyFilesOnDisk); the directed schedule below enacts that counterexample.
	if c.Thorough() {
		if _, ok := c.ModelCheck("ScorchDisk", "ScorchDisk_mc_builder_thorough.cfg", core.Workers(8), core.Timeout(25*time.Minute), core.Heap(8000)); !ok {
			return nil
		}
	}
	if res, ok := c.ModelRefutes("ScorchDisk", "ScorchDisk_mc_builder_byid.cfg", "CopyFilesOnDisk", core.Workers(8), core.Timeout(25*time.Minute), core.Heap(8000)); ok && res != nil {
		var sched []string
		for _, st := range res.CounterEx {
			sched = append(sched, st.Action)
		}
		c.Extra("builder_base_byid_model_schedule", sched)
	} else if !ok {
		return nil
	}
	rng := rand.New(rand.NewSource(c.Seed * 31))
	outs, healthy := failedCopyRuns(c)
	failedCopyInProcess = healthy
	n := c.Pick(3, 24)
	for i := 0; i < n; i++ {
		var kv map[string]interface{}
		safe := i%3 == 1
		switch i % 3 {
		case 2:
			kv = map[string]interface{}{"scorchPersisterOptions": map[string]interface{}{"NumPersisterWorkers": 3, "MaxSizeInMemoryMergePerWorker": 1}}
		}
		wl := sx.RandomWorkload(rng, c.Pick(24, 50), 2, safe, kv)
		name := fmt.Sprintf("copy-run-%d(safe=%v)", i, safe)
		o, err := runOne(c, name, wl, c.Seed*100+int64(i))
		if err != nil {
			return err
		}
		c.Logf("%s: %d copies", name, o.Copies)
		outs = append(outs, o)
	}
	// Engine S: TLC-generated schedules with COpen / CFile / CClose steps placed by
	// the model between batches, persist, merge and purge steps
	for _, safe := range []bool{false, true} {
		scheds, err := sx.SimulatedSchedules(c, c.Pick(5, 50), c.Pick(60, 80), c.Seed*5+11, safe)
		if err != nil {
			return err
		}
		ncopies := 0
		for i, sch := range scheds {
			base := c.TempDir("c14s")
			name := fmt.Sprintf("tlc-schedule-%d(safe=%v)", i, safe)
			r, sched, err := sx.RunSchedule(filepath.Join(base, "idx"), sch, c.Seed, nil)
			if err != nil {
				return err
			}
			if sched.CopyErr != nil {
				c.Violation("c14/copy-failed", fmt.Sprintf("%s: CopyTo failed: %v", name, sched.CopyErr), map[string]any{"scenario": name, "schedule": sch})
			}
			r.Quiesce(20 * time.Second)
			if cont, err := sx.ObserveContent(r.Idx); err == nil {
				r.Rec.Emit("SourceAfter", map[string]any{"docs": cont.Docs, "seq": cont.Seq, "count": cont.Count})
			}
			if err := r.Close(); err != nil {
				return err
			}
			os.RemoveAll(base)
			recs := sx.CrashRecords(r.Rec.Events())
			for _, x := range recs {
				if x.(map[string]any)["ev"] == "Recovered" {
					ncopies++
				}
			}
			outs = append(outs, &outcome{Name: name, Records: recs})
		}
		c.Logf("%d TLC-generated schedules executed (safe=%v): %d copies", len(scheds), safe, ncopies)
	}
	// the schedule TLC finds when copyScheduled is ignored (a copy holding a root
	// epoch the persister never persists, its file segments merged away and the
	// older bolt epochs purged while the copy is parked between two files)
	dres, err := sx.DirectedHeldEpoch(c.TempDir("c14d"), c.Seed, true)
	if err != nil {
		return err
	}
	if dres.CopyErr != nil {
		c.Violation("c14/copy-failed", fmt.Sprintf("directed schedule: CopyTo failed, a file it needed was removed before the copy ended: %v", dres.CopyErr), map[string]any{"scenario": "directed-copy"})
	}
	outs = append(outs, &outcome{Name: "directed-copy", Records: dres.Records, Copies: 1})
	bres, err := sx.DirectedHeldEpochBuilt(c.TempDir("c14d"), c.Seed)
	if err != nil {
		return err
	}
	c.Eval(1)
	if bres.CopyErr != nil {
		c.Violation("c14/copy-failed", fmt.Sprintf("directed schedule on an index made by the offline builder: CopyTo failed, a file it needed was removed before the copy ended: %v", bres.CopyErr), map[string]any{"scenario": "directed-copy-builder-base"})
	}
	runs := make([][]any, len(outs))
	for i, o := range outs {
		runs[i] = o.Records
		for _, r := range o.Records {
			m := r.(map[string]any)
			if m["ev"] == "Recovered" {
				c.Eval(1)
				if m["seq"] != 0 {
					c.Distinct(core.Canon([]any{m["seq"], m["docs"]}))
				}
			}
		}
	}
	if len(outs) > 0 {
		for _, r := range outs[0].Records {
			if m := r.(map[string]any); m["ev"] == "Recovered" && m["seq"] != 0 {
				c.Sample(m)
				break
			}
		}
	}
	sx.JudgeRuns(c, runs, func(inv string, run int, text string) {
		c.Violation("c14/"+inv, fmt.Sprintf("%s violated in %s: %s", inv, outs[run].Name, text), map[string]any{"scenario": outs[run].Name, "records": outs[run].Records})
	})
	c.SetExhaustive(false)
	return nil
}
