// Package c10: "Facet counts describe all matching documents, not only the
// returned page".
//
//   - the model decides: spec/Facets.tla (collector facet path: StartDoc /
//     UpdateVisitor / EndDoc per match BEFORE the bounded store; the three
//     builders; Merge/Fixup) model-checked exhaustively by TLC;
//   - Engine A: every corpus enumerated by TLC (Facets_enum_*.cfg, -dump) is
//     built as real indexes on both engines (several physical layouts) and
//     searched through Index.Search with every (Size, From, sort, search-after)
//     variant and several query forms; each returned FacetResult must equal the
//     value the spec computed;
//   - Engine B: seeded larger corpora, random facet requests (sizes, prefix /
//     regexp filters, numeric and date ranges with open ends); every real
//     FacetResult is recorded with its inputs and judged by TLC
//     (spec/trace/JudgeFacets.tla, operators of FacetOps.tla).
package c10

import (
	"encoding/json"
	"fmt"
	"os"
	"path/filepath"
	"regexp"
	"sort"
	"strings"
	"sync"
	"time"

	bleve "github.com/blevesearch/bleve/v2"
	"github.com/blevesearch/bleve/v2/index/scorch"
	"github.com/blevesearch/bleve/v2/mapping"
	"github.com/blevesearch/bleve/v2/search"
	"github.com/blevesearch/bleve/v2/search/query"

	"verif/harness/internal/core"
	"verif/harness/internal/tlaval"
	"verif/harness/internal/tlc"
)

func init() {
	core.Register(&core.Check{Prop: "C10", Level: "model_checking", Run: run, Replay: replay})
}

// ---------------------------------------------------------------- model <-> real encoding

// Entry / FR mirror FacetOps' facet result (Visible part).
type Entry struct {
	K int `json:"k"`
	C int `json:"c"`
}
type FR struct {
	Total   int     `json:"total"`
	Missing int     `json:"missing"`
	Other   int     `json:"other"`
	List    []Entry `json:"list"`
}

func (a FR) diff(b FR) string {
	switch {
	case a.Total != b.Total:
		return "total"
	case a.Missing != b.Missing:
		return "missing"
	case len(a.List) != len(b.List):
		return "list"
	}
	for i := range a.List {
		if a.List[i].K != b.List[i].K {
			return "order"
		}
		if a.List[i].C != b.List[i].C {
			return "count"
		}
	}
	if a.Other != b.Other {
		return "other"
	}
	return ""
}

// Range as in FacetOps: [lo,hi) with optional ends, id = rank of the name.
type Range struct {
	ID    int  `json:"id"`
	HasLo bool `json:"hasLo"`
	Lo    int  `json:"lo"`
	HasHi bool `json:"hasHi"`
	Hi    int  `json:"hi"`
}

func rangeName(id int) string { return fmt.Sprintf("r%d", id) }

// encoding of model values into real field values. All three maps are
// strictly monotone, so [lo,hi) in the model is [f(lo),f(hi)) in bleve.
type encoding struct {
	vocab []string // term of rank i is vocab[i-1]; byte order = rank order
	num   func(v int) float64
	date  func(v int) time.Time
}

var dateBase = time.Date(2020, 2, 27, 0, 0, 0, 0, time.UTC)

var encA = encoding{
	vocab: []string{"a1", "a2", "b3", "b4"},
	num:   func(v int) float64 { return float64(v-2) * 2.5 },                                            // -2.5, 0, 2.5, ...
	date:  func(v int) time.Time { return dateBase.Add(time.Duration(v) * (36*time.Hour + 123456789)) }, // ns precision
}

func (e encoding) rank(term string) int {
	for i, t := range e.vocab {
		if t == term {
			return i + 1
		}
	}
	return -1
}

// term filter of a terms facet
type Filter struct {
	Prefix string `json:"prefix,omitempty"`
	Regexp string `json:"regexp,omitempty"`
}

func (f Filter) pass(vocab []string) []int {
	var re *regexp.Regexp
	if f.Regexp != "" {
		re = regexp.MustCompile(f.Regexp)
	}
	out := []int{}
	for i, t := range vocab {
		if f.Prefix != "" && !strings.HasPrefix(t, f.Prefix) {
			continue
		}
		if re != nil && !re.MatchString(t) {
			continue
		}
		out = append(out, i+1)
	}
	return out
}

// filters of Facets.tla PassSets, in order
var filtersA = []Filter{{}, {Prefix: "a"}, {Regexp: "[13]$"}, {Prefix: "z"}, {Prefix: "a", Regexp: "[13]$"}}

// NumRanges / DateRanges of Facets.tla
var numRangesA = []Range{{1, false, 0, true, 2}, {2, true, 2, true, 3}, {3, true, 3, false, 0}, {4, true, 1, true, 3}}
var dateRangesA = []Range{{1, true, 1, true, 2}, {2, false, 0, true, 3}, {3, true, 2, false, 0}}

// Doc is one document of a corpus: matched by the query or not, distinct values.
type Doc struct {
	ID   string `json:"id"`
	M    bool   `json:"m"`
	Vals []int  `json:"vals"`
	Tags []int  `json:"tags,omitempty"` // engine B: query tags
}

// occ is Facets.tla Occ(d, v): how often value v occurs in the source of document d.
func occ(d, v int) int {
	if (d+v)%2 == 0 {
		return 2
	}
	return 1
}

// ---------------------------------------------------------------- real indexes

func buildMapping(dvOff bool) mapping.IndexMapping {
	m := bleve.NewIndexMapping()
	// a second date layout, used by ONE range of a date facet (the other ranges of the
	// same facet keep the default parser)
	_ = m.AddCustomDateTimeParser("c10slash", map[string]interface{}{
		"type": "flexiblego", "layouts": []interface{}{"2006/01/02 15:04:05.999999999"}})
	dm := bleve.NewDocumentStaticMapping()
	kw := func(dv bool) *mapping.FieldMapping {
		f := bleve.NewTextFieldMapping()
		f.Analyzer = "keyword"
		f.Store = false
		f.IncludeInAll = false
		f.IncludeTermVectors = false
		f.DocValues = dv
		return f
	}
	dm.AddFieldMappingsAt("t", kw(!dvOff))
	dm.AddFieldMappingsAt("m", kw(true))
	dm.AddFieldMappingsAt("all", kw(true))
	dm.AddFieldMappingsAt("q", kw(true))
	nf := bleve.NewNumericFieldMapping()
	nf.Store = false
	nf.IncludeInAll = false
	nf.DocValues = !dvOff
	dm.AddFieldMappingsAt("n", nf)
	df := bleve.NewDateTimeFieldMapping()
	df.Store = false
	df.IncludeInAll = false
	df.DocValues = !dvOff
	dm.AddFieldMappingsAt("d", df)
	m.DefaultMapping = dm
	return m
}

// Layout: which engine and how the documents get into it.
//
//	0 scorch, one batch                       1 upsidedown, one batch
//	2 scorch, one segment per document, a deleted document and an updated one (stale values)
//	3 upsidedown, single ops with delete/update noise
//	4 scorch, doc values disabled for the facet fields (uninverted on the fly), two batches
const nLayouts = 5

func layoutName(l int) string {
	return []string{"scorch/1batch", "upsidedown/1batch", "scorch/per-doc+stale", "upsidedown/per-doc+stale", "scorch/no-docvalues"}[l]
}

func body(e encoding, dnum int, d Doc) map[string]any {
	b := map[string]any{"all": "x"}
	if d.M {
		b["m"] = "1"
	} else {
		b["m"] = "0"
	}
	if len(d.Tags) > 0 {
		q := []string{}
		for _, t := range d.Tags {
			q = append(q, fmt.Sprintf("q%d", t))
		}
		b["q"] = q
	}
	if len(d.Vals) == 0 {
		if dnum%2 == 0 { // both ways of lacking the field
			b["t"] = []string{}
			b["n"] = []float64{}
		}
		return b
	}
	var ts []string
	var ns []float64
	var ds []string
	for _, v := range d.Vals {
		for k := 0; k < occ(dnum, v); k++ {
			ts = append(ts, e.vocab[v-1])
			ns = append(ns, e.num(v))
			ds = append(ds, e.date(v).Format(time.RFC3339Nano))
		}
	}
	if dnum%3 == 0 { // value order in the source must not matter
		for i, j := 0, len(ts)-1; i < j; i, j = i+1, j-1 {
			ts[i], ts[j] = ts[j], ts[i]
			ns[i], ns[j] = ns[j], ns[i]
			ds[i], ds[j] = ds[j], ds[i]
		}
	}
	if len(ts) == 1 {
		b["t"], b["n"], b["d"] = ts[0], ns[0], ds[0]
	} else {
		b["t"], b["n"], b["d"] = ts, ns, ds
	}
	return b
}

func buildIndex(e encoding, layout int, docs []Doc) (bleve.Index, error) {
	var idx bleve.Index
	var err error
	switch layout {
	case 0, 2:
		idx, err = bleve.NewUsing("", buildMapping(false), scorch.Name, scorch.Name, nil)
	case 4:
		idx, err = bleve.NewUsing("", buildMapping(true), scorch.Name, scorch.Name, nil)
	default:
		idx, err = bleve.NewMemOnly(buildMapping(false))
	}
	if err != nil {
		return nil, err
	}
	allVals := []int{}
	for i := range e.vocab {
		allVals = append(allVals, i+1)
	}
	switch layout {
	case 0, 1:
		b := idx.NewBatch()
		for i, d := range docs {
			if err = b.Index(d.ID, body(e, i+1, d)); err != nil {
				return nil, err
			}
		}
		err = idx.Batch(b)
	case 2, 3:
		// a matching document with every value that is deleted again, and every
		// third document first indexed with other values: stale doc values must not count
		if err = idx.Index("zz-ghost", body(e, 1, Doc{M: true, Vals: allVals, Tags: []int{1, 2, 3, 4}})); err != nil {
			return nil, err
		}
		for i, d := range docs {
			if i%3 == 0 {
				if err = idx.Index(d.ID, body(e, i+2, Doc{M: true, Vals: allVals[:2], Tags: []int{1, 2, 3, 4}})); err != nil {
					return nil, err
				}
			}
			if err = idx.Index(d.ID, body(e, i+1, d)); err != nil {
				return nil, err
			}
		}
		err = idx.Delete("zz-ghost")
	case 4:
		h := (len(docs) + 1) / 2
		for _, part := range [][2]int{{0, h}, {h, len(docs)}} {
			b := idx.NewBatch()
			for i := part[0]; i < part[1]; i++ {
				if err = b.Index(docs[i].ID, body(e, i+1, docs[i])); err != nil {
					return nil, err
				}
			}
			if err = idx.Batch(b); err != nil {
				return nil, err
			}
		}
	}
	if err != nil {
		idx.Close()
		return nil, err
	}
	return idx, nil
}

// ---------------------------------------------------------------- requests

// FacetSpec describes one facet of a request in model terms.
type FacetSpec struct {
	Name   string  `json:"name"`
	Kind   string  `json:"kind"` // terms | numeric | date
	Size   int     `json:"size"`
	Filter Filter  `json:"filter"`
	Ranges []Range `json:"ranges,omitempty"`
}

func (fs FacetSpec) request(e encoding, idx int) *bleve.FacetRequest {
	switch fs.Kind {
	case "terms":
		fr := bleve.NewFacetRequest("t", fs.Size)
		if fs.Filter.Prefix != "" {
			fr.SetPrefixFilter(fs.Filter.Prefix)
		}
		if fs.Filter.Regexp != "" {
			fr.SetRegexFilter(fs.Filter.Regexp)
		}
		return fr
	case "numeric":
		fr := bleve.NewFacetRequest("n", fs.Size)
		for _, r := range fs.Ranges {
			var lo, hi *float64
			if r.HasLo {
				v := e.num(r.Lo)
				lo = &v
			}
			if r.HasHi {
				v := e.num(r.Hi)
				hi = &v
			}
			fr.AddNumericRange(rangeName(r.ID), lo, hi)
		}
		return fr
	default:
		fr := bleve.NewFacetRequest("d", fs.Size)
		for _, r := range fs.Ranges {
			// an open end is sometimes written as a far sentinel date (year 1600 / 9999), as
			// applications do; every indexed date lies between them, so the bucket is the same
			farLo, farHi := time.Date(1600, 1, 1, 0, 0, 0, 0, time.UTC), time.Date(9999, 12, 31, 0, 0, 0, 0, time.UTC)
			sentinel := (idx+r.ID)%3 == 2
			if (idx+r.ID)%2 == 0 { // time.Time API
				var lo, hi time.Time
				if r.HasLo {
					lo = e.date(r.Lo)
				} else if sentinel {
					lo = farLo
				}
				if r.HasHi {
					hi = e.date(r.Hi)
				} else if sentinel {
					hi = farHi
				}
				fr.AddDateTimeRange(rangeName(r.ID), lo, hi)
			} else { // string API (default date time parser)
				if r.ID == 1 && (r.HasLo || r.HasHi) {
					// this range names its own parser and writes its bounds in that layout
					var lo, hi *string
					if r.HasLo {
						s := e.date(r.Lo).UTC().Format("2006/01/02 15:04:05.999999999")
						lo = &s
					}
					if r.HasHi {
						s := e.date(r.Hi).UTC().Format("2006/01/02 15:04:05.999999999")
						hi = &s
					}
					fr.AddDateTimeRangeStringWithParser(rangeName(r.ID), lo, hi, "c10slash")
					continue
				}
				var lo, hi *string
				if r.HasLo {
					s := e.date(r.Lo).Format(time.RFC3339Nano)
					lo = &s
				} else if sentinel {
					s := farLo.Format(time.RFC3339Nano)
					lo = &s
				}
				if r.HasHi {
					s := e.date(r.Hi).Format(time.RFC3339Nano)
					hi = &s
				} else if sentinel {
					s := farHi.Format(time.RFC3339Nano)
					hi = &s
				}
				fr.AddDateTimeRangeString(rangeName(r.ID), lo, hi)
			}
		}
		return fr
	}
}

// canon converts a real facet result into model terms.
func canon(e encoding, fs FacetSpec, fr *search.FacetResult) (FR, string) {
	out := FR{Total: fr.Total, Missing: fr.Missing, Other: fr.Other, List: []Entry{}}
	var id int
	switch fs.Kind {
	case "terms":
		if fr.NumericRanges != nil || fr.DateRanges != nil {
			return out, "terms facet returned ranges"
		}
		for _, t := range fr.Terms.Terms() {
			k := e.rank(t.Term)
			if k < 0 {
				return out, fmt.Sprintf("unknown term %q", t.Term)
			}
			out.List = append(out.List, Entry{k, t.Count})
		}
	case "numeric":
		for _, r := range fr.NumericRanges {
			if _, err := fmt.Sscanf(r.Name, "r%d", &id); err != nil {
				return out, fmt.Sprintf("unknown range %q", r.Name)
			}
			out.List = append(out.List, Entry{id, r.Count})
			for _, q := range fs.Ranges {
				if q.ID == id {
					if (r.Min != nil) != q.HasLo || (r.Max != nil) != q.HasHi ||
						(r.Min != nil && *r.Min != e.num(q.Lo)) || (r.Max != nil && *r.Max != e.num(q.Hi)) {
						return out, fmt.Sprintf("range %s echoed with other bounds", r.Name)
					}
				}
			}
		}
	default:
		for _, r := range fr.DateRanges {
			if _, err := fmt.Sscanf(r.Name, "r%d", &id); err != nil {
				return out, fmt.Sprintf("unknown range %q", r.Name)
			}
			out.List = append(out.List, Entry{id, r.Count})
		}
	}
	return out, ""
}

// Variant: page settings / sort / search-after of the request. Facets must not depend on it.
type Variant struct {
	Size  int      `json:"size"`
	From  int      `json:"from"`
	Sort  []string `json:"sort,omitempty"`
	After []string `json:"after,omitempty"`
}

var variants = []Variant{
	{Size: 10, From: 0, Sort: []string{"_id"}},
	{Size: 1, From: 0, Sort: []string{"-_id"}},
	{Size: 1, From: 1, Sort: []string{"-_score", "_id"}},
	{Size: 0, From: 0},
	{Size: 2, From: 1, Sort: []string{"t", "_id"}},
	{Size: 1, From: 2, Sort: []string{"-n", "-_id"}},
	{Size: 1, From: 0, Sort: []string{"_id"}, After: []string{"d2"}},
	{Size: 50, From: 0, Sort: []string{"-d", "_id"}},
}

// query forms that select exactly the documents with m = "1"
const nQueryForms = 5

func matchQuery(form int, docs []Doc) query.Query {
	m1 := bleve.NewTermQuery("1")
	m1.SetField("m")
	switch form {
	case 0:
		return m1
	case 1:
		ids := []string{}
		for _, d := range docs {
			if d.M {
				ids = append(ids, d.ID)
			}
		}
		return bleve.NewDocIDQuery(ids)
	case 2:
		all := bleve.NewTermQuery("x")
		all.SetField("all")
		return bleve.NewConjunctionQuery(all, m1)
	case 3:
		return bleve.NewDisjunctionQuery(m1, bleve.NewMatchNoneQuery())
	default:
		m0 := bleve.NewTermQuery("0")
		m0.SetField("m")
		bq := bleve.NewBooleanQuery()
		bq.AddMust(bleve.NewMatchAllQuery())
		bq.AddMustNot(m0)
		return bq
	}
}

func newRequest(e encoding, q query.Query, v Variant, facets []FacetSpec, validate bool) (*bleve.SearchRequest, error) {
	req := bleve.NewSearchRequestOptions(q, v.Size, v.From, false)
	if len(v.Sort) > 0 {
		req.SortBy(v.Sort)
	}
	if v.After != nil {
		req.SetSearchAfter(v.After)
	}
	for i, fs := range facets {
		req.AddFacet(fs.Name, fs.request(e, i))
	}
	if validate {
		if err := req.Validate(); err != nil {
			return nil, err
		}
	}
	return req, nil
}

// ---------------------------------------------------------------- Engine A

type caseA struct {
	Docs   []Doc         `json:"docs"`
	Expect map[string]FR `json:"expect"`
}

func frOf(v any) FR {
	m := tlaval.Map(v)
	fr := FR{Total: tlaval.Int(m["total"]), Missing: tlaval.Int(m["missing"]), Other: tlaval.Int(m["other"]), List: []Entry{}}
	for _, e := range tlaval.List(m["list"]) {
		fr.List = append(fr.List, Entry{tlaval.Int(tlaval.Field(e, "k")), tlaval.Int(tlaval.Field(e, "c"))})
	}
	return fr
}

// facetsA: the facets of Facets.tla's `out`, all in one request.
func facetsA(sizes []int) []FacetSpec {
	var out []FacetSpec
	for f := range filtersA {
		for _, s := range sizes {
			out = append(out, FacetSpec{Name: fmt.Sprintf("t/%d/%d", f+1, s), Kind: "terms", Size: s, Filter: filtersA[f]})
		}
	}
	for _, s := range sizes {
		out = append(out, FacetSpec{Name: fmt.Sprintf("n/%d", s), Kind: "numeric", Size: s, Ranges: numRangesA})
		out = append(out, FacetSpec{Name: fmt.Sprintf("d/%d", s), Kind: "date", Size: s, Ranges: dateRangesA})
	}
	return out
}

func parseCaseA(st tlaval.State) (*caseA, []int) {
	cs := &caseA{Expect: map[string]FR{}}
	for i, d := range tlaval.List(st["docs"]) {
		doc := Doc{ID: fmt.Sprintf("d%d", i+1), M: tlaval.Bool(tlaval.Field(d, "m")), Vals: []int{}}
		for _, v := range tlaval.List(tlaval.Field(d, "vals")) {
			doc.Vals = append(doc.Vals, tlaval.Int(v))
		}
		sort.Ints(doc.Vals)
		cs.Docs = append(cs.Docs, doc)
	}
	out := st["out"]
	sizeSet := map[int]bool{}
	for f, bySize := range tlaval.Map(tlaval.Field(out, "t")) {
		for s, fr := range tlaval.Map(bySize) {
			cs.Expect["t/"+f+"/"+s] = frOf(fr)
			var n int
			fmt.Sscanf(s, "%d", &n)
			sizeSet[n] = true
		}
	}
	for s, fr := range tlaval.Map(tlaval.Field(out, "n")) {
		cs.Expect["n/"+s] = frOf(fr)
	}
	for s, fr := range tlaval.Map(tlaval.Field(out, "d")) {
		cs.Expect["d/"+s] = frOf(fr)
	}
	var sizes []int
	for s := range sizeSet {
		sizes = append(sizes, s)
	}
	sort.Ints(sizes)
	return cs, sizes
}

// Failure is the replay artefact of one divergence.
type Failure struct {
	Engine  string    `json:"engine"` // A | B
	Layout  int       `json:"layout"`
	Docs    []Doc     `json:"docs"`
	Form    int       `json:"query_form"`
	Query   string    `json:"query,omitempty"`
	Variant Variant   `json:"variant"`
	Facet   FacetSpec `json:"facet"`
	Expect  *FR       `json:"expect,omitempty"`
	Got     FR        `json:"got"`
	Clause  string    `json:"clause"`
	Note    string    `json:"note,omitempty"`
}

// runCaseA builds the corpus in `layout` and checks every variant x query form.
func runCaseA(c *core.Ctx, cs *caseA, allFacets []FacetSpec, layout int, forms []int, nvar int, rot int) (int, *Failure, error) {
	var lightFacets []FacetSpec
	for _, fs := range allFacets {
		if fs.Size == 1 || fs.Size == 3 {
			lightFacets = append(lightFacets, fs)
		}
	}
	idx, err := buildIndex(encA, layout, cs.Docs)
	if err != nil {
		return 0, nil, err
	}
	defer idx.Close()
	nMatched := 0
	for _, d := range cs.Docs {
		if d.M {
			nMatched++
		}
	}
	evals := 0
	// one search + comparison of every requested facet with the model's expectation
	checkReq := func(req *bleve.SearchRequest, form int, v Variant, facets []FacetSpec, names []string) (*Failure, error) {
		res, err := idx.Search(req)
		if err != nil {
			// a valid request that fails did not report its facets
			evals++
			var fs FacetSpec
			if len(facets) > 0 {
				fs = facets[0]
			}
			return &Failure{Engine: "A", Layout: layout, Docs: cs.Docs, Form: form, Variant: v, Facet: fs, Clause: "search-error", Note: err.Error()}, nil
		}
		evals++
		if int(res.Total) != nMatched {
			return nil, fmt.Errorf("query form %d matched %d documents, expected %d (docs %s)", form, res.Total, nMatched, core.Canon(cs.Docs))
		}
		for i, fs := range facets {
			want := cs.Expect[fs.Name]
			name := fs.Name
			if names != nil {
				name = names[i]
			}
			real, ok := res.Facets[name]
			if !ok {
				return &Failure{Engine: "A", Layout: layout, Docs: cs.Docs, Form: form, Variant: v, Facet: fs, Expect: &want, Clause: "absent"}, nil
			}
			got, note := canon(encA, fs, real)
			cl := note
			if cl == "" {
				cl = want.diff(got)
			} else {
				cl = "shape"
			}
			if cl != "" {
				return &Failure{Engine: "A", Layout: layout, Docs: cs.Docs, Form: form, Variant: v, Facet: fs, Expect: &want, Got: got, Clause: cl, Note: note}, nil
			}
		}
		return nil, nil
	}
	// (1) the first request on the fresh index asks for the facets of ONE field only
	// (rotating), the following ones for several fields: per-segment caches filled
	// for one field must not pass for the others (fields without doc values)
	{
		kind := []string{"terms", "numeric", "date"}[(rot+layout)%3]
		var one []FacetSpec
		for _, fs := range lightFacets {
			if fs.Kind == kind {
				one = append(one, fs)
			}
		}
		req, err := newRequest(encA, matchQuery(forms[0], cs.Docs), variants[0], one, rot%2 == 0)
		if err != nil {
			return evals, nil, err
		}
		if f, err := checkReq(req, forms[0], variants[0], one, nil); f != nil || err != nil {
			if f != nil {
				f.Note += " (first request on the index: facets of one field only)"
			}
			return evals, f, err
		}
	}
	// (2) one FacetRequest object used for two searches with different term patterns
	// (regexp "[13]$" = filter 3, then regexp "^a" = the terms of filter 2), once
	// re-validated in between and once not
	{
		var f3, f2 *FacetSpec
		for i := range lightFacets {
			fs := &lightFacets[i]
			if fs.Kind == "terms" && fs.Size == 3 && fs.Filter == filtersA[2] {
				f3 = fs
			}
			if fs.Kind == "terms" && fs.Size == 3 && fs.Filter == filtersA[1] {
				f2 = fs
			}
		}
		if f3 != nil && f2 != nil {
			for _, revalidate := range []bool{true, false} {
				v := variants[0]
				req := bleve.NewSearchRequestOptions(matchQuery(forms[0], cs.Docs), v.Size, v.From, false)
				fr := f3.request(encA, 0)
				req.AddFacet("reused", fr)
				if err := req.Validate(); err != nil {
					return evals, nil, err
				}
				if f, err := checkReq(req, forms[0], v, []FacetSpec{*f3}, []string{"reused"}); f != nil || err != nil {
					return evals, f, err
				}
				fr.SetRegexFilter("^a")
				if revalidate {
					if err := req.Validate(); err != nil {
						return evals, nil, err
					}
				}
				if f, err := checkReq(req, forms[0], v, []FacetSpec{*f2}, []string{"reused"}); f != nil || err != nil {
					if f != nil {
						f.Note += fmt.Sprintf(" (a FacetRequest used before with the term pattern \"[13]$\", now SetRegexFilter(\"^a\"), re-validated=%v)", revalidate)
						f.Clause = "reused-request:" + f.Clause
					}
					return evals, f, err
				}
			}
		}
	}
	for fi, form := range forms {
		for vi := 0; vi < nvar; vi++ {
			if fi > 0 && c.Quick() && (vi+rot)%3 != 0 {
				continue // quick tier: the second query form runs a rotating third of the variants
			}
			v := variants[vi]
			facets := lightFacets
			if (vi+rot+form)%4 == 0 {
				facets = allFacets // every facet size at once on a rotating quarter of the variants
			}
			req, err := newRequest(encA, matchQuery(form, cs.Docs), v, facets, (form+vi)%2 == 0)
			if err != nil {
				return evals, nil, err
			}
			res, err := idx.Search(req)
			if err != nil {
				return evals, nil, fmt.Errorf("search: %v", err)
			}
			evals++
			if int(res.Total) != nMatched {
				return evals, nil, fmt.Errorf("query form %d matched %d documents, expected %d (docs %s)", form, res.Total, nMatched, core.Canon(cs.Docs))
			}
			for _, fs := range facets {
				want := cs.Expect[fs.Name]
				real, ok := res.Facets[fs.Name]
				if !ok {
					return evals, &Failure{Engine: "A", Layout: layout, Docs: cs.Docs, Form: form, Variant: v, Facet: fs, Expect: &want, Clause: "absent"}, nil
				}
				got, note := canon(encA, fs, real)
				cl := note
				if cl == "" {
					cl = want.diff(got)
				} else {
					cl = "shape"
				}
				if cl != "" {
					return evals, &Failure{Engine: "A", Layout: layout, Docs: cs.Docs, Form: form, Variant: v, Facet: fs, Expect: &want, Got: got, Clause: cl, Note: note}, nil
				}
			}
		}
	}
	return evals, nil, nil
}

func report(c *core.Ctx, f *Failure) {
	sig := fmt.Sprintf("facet-%s-%s", f.Facet.Kind, f.Clause)
	against := "differs from the specification's " + core.Canon(f.Expect) + " in " + f.Clause
	if f.Engine == "B" {
		against = "is rejected by the TLC judge (JudgeFacets invariant " + f.Clause + ") for query " + f.Query
	}
	what := fmt.Sprintf("%s facet %q (size %d, filter %+v, ranges %s) on %s, variant %+v: real %s %s",
		f.Facet.Kind, f.Facet.Name, f.Facet.Size, f.Facet.Filter, core.Canon(f.Facet.Ranges), layoutName(f.Layout), f.Variant, core.Canon(f.Got), against)
	c.Violation(sig, what, f)
}

func engineA(c *core.Ctx) error {
	cfg := "Facets_enum_quick.cfg"
	if c.Thorough() {
		cfg = "Facets_enum_thorough.cfg"
	}
	type job struct {
		n  int
		cs *caseA
	}
	jobs := make(chan job, 256)
	var wg sync.WaitGroup
	var mu sync.Mutex
	var firstErr error
	var facets []FacetSpec
	var fonce sync.Once
	nvar := len(variants)
	workers := 8
	for w := 0; w < workers; w++ {
		wg.Add(1)
		go func() {
			defer wg.Done()
			for j := range jobs {
				// every case on both engines; physical layout and query forms rotate
				layouts := []int{[]int{0, 2, 4}[j.n%3], []int{1, 3}[j.n%2]}
				forms := []int{j.n % nQueryForms, (j.n/nQueryForms + 1 + j.n) % nQueryForms}
				for _, l := range layouts {
					n, fail, err := runCaseA(c, j.cs, facets, l, forms, nvar, j.n)
					c.Eval(n)
					if err != nil {
						mu.Lock()
						if firstErr == nil {
							firstErr = err
						}
						mu.Unlock()
						continue
					}
					if fail != nil {
						report(c, fail)
					}
				}
			}
		}()
	}
	ncases := 0
	opts := c.TLCOpts("Facets", cfg, core.Workers(4), core.Timeout(20*time.Minute))
	res, err := tlc.DumpStates(opts, func(st tlaval.State) error {
		if tlaval.Str(st["pc"]) != "done" {
			return nil
		}
		cs, sizes := parseCaseA(st)
		fonce.Do(func() { facets = facetsA(sizes) })
		matched := 0
		for _, d := range cs.Docs {
			if d.M {
				matched++
			}
		}
		if matched > 0 {
			c.Distinct("A:" + core.Canon(cs.Docs))
		}
		if ncases%977 == 0 {
			c.Sample(map[string]any{"engine": "A", "docs": cs.Docs, "expect(t/1/2)": cs.Expect["t/1/2"], "expect(n/5)": cs.Expect["n/5"]})
		}
		jobs <- job{ncases, cs}
		ncases++
		return nil
	})
	close(jobs)
	wg.Wait()
	c.Account("Facets", cfg, "enumerate", res)
	if err != nil {
		return fmt.Errorf("enumerating cases: %v", err)
	}
	if res == nil || !res.OK {
		return fmt.Errorf("TLC enumeration %s failed", cfg)
	}
	if firstErr != nil {
		return firstErr
	}
	if ncases == 0 {
		return fmt.Errorf("TLC enumerated no cases")
	}
	c.Extra("engineA_cases", ncases)
	c.Logf("engine A: %d TLC-enumerated corpora replayed on both engines", ncases)
	return nil
}

// ---------------------------------------------------------------- Engine B

var vocabB = []string{"a1", "a2", "a3", "b4", "b5", "c6", "c7", "c8"}

var encB = encoding{
	vocab: vocabB,
	num:   func(v int) float64 { return float64(v)*0.5 - 3 }, // half-integers around zero
	date:  func(v int) time.Time { return dateBase.Add(time.Duration(v) * 12 * time.Hour) },
}

var filtersB = []Filter{{}, {Prefix: "a"}, {Prefix: "b"}, {Regexp: "[1357]$"}, {Regexp: "^(a|c)"}, {Prefix: "a", Regexp: "[13]$"},
	{Prefix: "zz"}, {Prefix: "c6"}, {Regexp: "^b[0-9]$"}}

type recordB struct {
	Kind   string  `json:"kind"` // terms | range
	Docs   [][]int `json:"docs"` // distinct values of every MATCHING document
	Pass   []int   `json:"pass"`
	Size   int     `json:"size"`
	Ranges []Range `json:"ranges"`
	Got    FR      `json:"got"`
}

type metaB struct {
	fail Failure
}

func engineB(c *core.Ctx) error {
	nCorpora := c.Pick(5, 40)
	nReq := c.Pick(6, 12)
	var records []any
	var metas []metaB
	r := c.Rand
	for ci := 0; ci < nCorpora; ci++ {
		ndocs := 5 + r.Intn(c.Pick(60, 200))
		nvals := 8
		docs := make([]Doc, ndocs)
		for i := range docs {
			d := Doc{ID: fmt.Sprintf("d%03d", i), M: false, Vals: []int{}}
			// 15% lack the field, else 1..4 values, skewed towards small ranks so that ties in counts are common
			if r.Intn(100) >= 15 {
				k := 1 + r.Intn(4)
				seen := map[int]bool{}
				for j := 0; j < k; j++ {
					v := 1 + r.Intn(nvals)
					if r.Intn(3) == 0 {
						v = 1 + r.Intn(3)
					}
					if !seen[v] {
						seen[v] = true
						d.Vals = append(d.Vals, v)
					}
				}
				sort.Ints(d.Vals)
			}
			for t := 1; t <= 4; t++ {
				if r.Intn(3) == 0 {
					d.Tags = append(d.Tags, t)
				}
			}
			docs[i] = d
		}
		layout := (ci + int(c.Seed)) % nLayouts
		idx, err := buildIndex(encB, layout, docs)
		if err != nil {
			return err
		}
		for qi := 0; qi < nReq; qi++ {
			// query with a match set known by construction (tags)
			t1, t2 := 1+r.Intn(4), 1+r.Intn(4)
			has := func(d Doc, t int) bool {
				for _, x := range d.Tags {
					if x == t {
						return true
					}
				}
				return false
			}
			tq := func(t int) query.Query {
				q := bleve.NewTermQuery(fmt.Sprintf("q%d", t))
				q.SetField("q")
				return q
			}
			var q query.Query
			var sel func(d Doc) bool
			var qname string
			switch r.Intn(6) {
			case 0:
				q, sel, qname = bleve.NewMatchAllQuery(), func(Doc) bool { return true }, "match_all"
			case 1:
				q, sel, qname = tq(t1), func(d Doc) bool { return has(d, t1) }, fmt.Sprintf("q:q%d", t1)
			case 2:
				q, sel, qname = bleve.NewConjunctionQuery(tq(t1), tq(t2)), func(d Doc) bool { return has(d, t1) && has(d, t2) }, fmt.Sprintf("q%d AND q%d", t1, t2)
			case 3:
				q, sel, qname = bleve.NewDisjunctionQuery(tq(t1), tq(t2)), func(d Doc) bool { return has(d, t1) || has(d, t2) }, fmt.Sprintf("q%d OR q%d", t1, t2)
			case 4:
				bq := bleve.NewBooleanQuery()
				bq.AddMust(bleve.NewMatchAllQuery())
				bq.AddMustNot(tq(t1))
				q, sel, qname = bq, func(d Doc) bool { return !has(d, t1) }, fmt.Sprintf("NOT q%d", t1)
			default:
				q, sel, qname = bleve.NewMatchNoneQuery(), func(Doc) bool { return false }, "match_none"
			}
			matched := [][]int{}
			mdocs := []Doc{}
			for _, d := range docs {
				if sel(d) {
					matched = append(matched, d.Vals)
					dd := d
					dd.M = true
					mdocs = append(mdocs, dd)
				}
			}
			// facet requests: boundary-biased sizes and ranges
			var facets []FacetSpec
			buckets := map[int]bool{}
			for _, vs := range matched {
				for _, v := range vs {
					buckets[v] = true
				}
			}
			nb := len(buckets)
			sizesT := []int{0, 1, nb - 1, nb, nb + 1, 2 + r.Intn(4)}
			for k := 0; k < 4; k++ {
				s := sizesT[r.Intn(len(sizesT))]
				if s < 0 {
					s = 0
				}
				facets = append(facets, FacetSpec{Name: fmt.Sprintf("t%d", k), Kind: "terms", Size: s, Filter: filtersB[r.Intn(len(filtersB))]})
			}
			for k, kind := range []string{"numeric", "date"} {
				nr := 1 + r.Intn(5)
				var rs []Range
				for id := 1; id <= nr; id++ {
					lo, hi := r.Intn(nvals+2), r.Intn(nvals+2)
					if lo > hi {
						lo, hi = hi, lo
					}
					if lo == hi {
						hi++
					}
					rg := Range{ID: id, HasLo: true, Lo: lo, HasHi: true, Hi: hi}
					switch r.Intn(5) {
					case 0:
						rg.HasLo, rg.Lo = false, 0
					case 1:
						rg.HasHi, rg.Hi = false, 0
					}
					dup := false
					for _, o := range rs {
						if o.HasLo == rg.HasLo && o.HasHi == rg.HasHi && o.Lo == rg.Lo && o.Hi == rg.Hi {
							dup = true
						}
					}
					if !dup {
						rs = append(rs, rg)
					}
				}
				sz := []int{0, 1, len(rs) - 1, len(rs), len(rs) + 1}[r.Intn(5)]
				if sz < 0 {
					sz = 0
				}
				facets = append(facets, FacetSpec{Name: fmt.Sprintf("%s%d", kind, k), Kind: kind, Size: sz, Ranges: rs})
			}
			// three variants of page settings; every variant's facets are judged
			for _, vi := range []int{0, 1 + r.Intn(3), 4 + r.Intn(4)} {
				v := variants[vi]
				if v.After != nil {
					v.After = []string{"d002"}
				}
				req, err := newRequest(encB, q, v, facets, r.Intn(2) == 0)
				if err != nil {
					idx.Close()
					return err
				}
				res, err := idx.Search(req)
				if err != nil {
					idx.Close()
					return fmt.Errorf("search: %v", err)
				}
				c.Eval(1)
				if int(res.Total) != len(matched) {
					idx.Close()
					return fmt.Errorf("engine B: query %s matched %d documents, by construction %d", qname, res.Total, len(matched))
				}
				for _, fs := range facets {
					real, ok := res.Facets[fs.Name]
					if !ok {
						report(c, &Failure{Engine: "B", Layout: layout, Docs: mdocs, Query: qname, Variant: v, Facet: fs, Clause: "absent"})
						continue
					}
					got, note := canon(encB, fs, real)
					if note != "" {
						report(c, &Failure{Engine: "B", Layout: layout, Docs: mdocs, Query: qname, Variant: v, Facet: fs, Got: got, Clause: "shape", Note: note})
						continue
					}
					rec := recordB{Kind: "range", Docs: matched, Pass: []int{}, Size: fs.Size, Ranges: fs.Ranges, Got: got}
					if fs.Kind == "terms" {
						rec.Kind, rec.Pass, rec.Ranges = "terms", fs.Filter.pass(vocabB), []Range{}
					}
					records = append(records, rec)
					metas = append(metas, metaB{Failure{Engine: "B", Layout: layout, Docs: mdocs, Query: qname, Variant: v, Facet: fs, Got: got}})
					if len(matched) > 0 {
						c.Distinct(fmt.Sprintf("B:%d:%d:%s:%s", ci, qi, qname, core.Canon(fs)))
					}
				}
			}
		}
		idx.Close()
	}
	if len(records) == 0 {
		return fmt.Errorf("engine B produced no records")
	}
	c.Sample(map[string]any{"engine": "B", "record": records[len(records)/2]})
	if p := os.Getenv("VERIF_C10_DUMP_RECORDS"); p != "" {
		_ = core.WriteNDJSON(p, records)
	}
	// the judge EXTENDS FacetOps (spec/FacetOps.tla): run TLC on a copy of the whole
	// spec directory with the config under trace/ so that the design module is found
	withDesign := core.TLCOpt(func(o *tlc.Opts) {
		o.SpecDir = c.SpecDir
		o.Config = filepath.Join("trace", "JudgeFacets.cfg")
	})
	// TLC judges every record; chunks in parallel
	chunk := 1500
	type part struct{ lo, hi int }
	var parts []part
	for lo := 0; lo < len(records); lo += chunk {
		hi := lo + chunk
		if hi > len(records) {
			hi = len(records)
		}
		parts = append(parts, part{lo, hi})
	}
	var wg sync.WaitGroup
	var mu sync.Mutex
	var jerr error
	sem := make(chan struct{}, 4)
	for _, p := range parts {
		wg.Add(1)
		go func(p part) {
			defer wg.Done()
			sem <- struct{}{}
			defer func() { <-sem }()
			// a trivially correct first record: TLC reports a violation in the initial
			// state without a state number, which the runtime cannot map to a record
			dummy := recordB{Kind: "terms", Docs: [][]int{}, Pass: []int{}, Ranges: []Range{}, Got: FR{List: []Entry{}}}
			chunkRecs := append([]any{dummy}, records[p.lo:p.hi]...)
			bad, err := c.JudgeRecords("JudgeFacets", "JudgeFacets.cfg", chunkRecs, 5, withDesign, core.Timeout(10*time.Minute))
			mu.Lock()
			defer mu.Unlock()
			if err != nil {
				if jerr == nil {
					jerr = err
				}
				return
			}
			for i, inv := range bad {
				if i == 0 {
					jerr = fmt.Errorf("judge rejected the trivial record (%s)", inv)
					return
				}
				f := metas[p.lo+i-1].fail
				f.Clause = inv
				report(c, &f)
			}
		}(p)
	}
	wg.Wait()
	if jerr != nil {
		return jerr
	}
	c.Traces(len(parts))
	c.Extra("engineB_records_judged", len(records))
	c.Logf("engine B: %d real facet results judged by TLC", len(records))
	return nil
}

// ---------------------------------------------------------------- run

func run(c *core.Ctx) error {
	c.SetRule("engine A: a TLC-enumerated corpus (per-document match flag and value set) with at least one matching document; " +
		"engine B: a (seeded corpus, query, facet request) triple with at least one matching document")
	c.SetExhaustive(false)
	c.Assume("terms are compared through a rank map whose byte order equals the integer order used by TLC; numeric and date values are images of small integers under strictly monotone maps")
	c.Assume("Missing under a term filter is asserted as the code defines it (documents without a filter-passing value); Total counts every (document, distinct term) pair, filtered or not")
	c.Assume("match sets are known by construction of the query (flag / tag terms); a query returning another Total makes the run inconclusive, not a violation of C10")

	var wg sync.WaitGroup
	only := os.Getenv("VERIF_C10_ONLY") // development knob: any of the letters A B M
	// 1. the model decides
	type mc struct {
		cfg     string
		workers int
	}
	var cfgs []mc
	if c.Quick() {
		cfgs = []mc{{"Facets_mc_quick.cfg", 4}, {"Facets_mc_4docs.cfg", 2}, {"Facets_mc_merge.cfg", 2}}
	} else {
		cfgs = []mc{{"Facets_mc_thorough.cfg", 6}, {"Facets_mc_pages.cfg", 2}, {"Facets_mc_4docs.cfg", 1}, {"Facets_mc_merge.cfg", 1}, {"Facets_mc_merge3.cfg", 2}}
	}
	for _, m := range cfgs {
		if only != "" && !strings.Contains(only, "M") {
			break
		}
		wg.Add(1)
		go func(m mc) {
			defer wg.Done()
			c.ModelCheck("Facets", m.cfg, core.Workers(m.workers), core.Timeout(25*time.Minute))
		}(m)
	}
	// 2. the code is bound
	var errA, errB error
	if only == "" || strings.Contains(only, "A") {
		wg.Add(1)
		go func() { defer wg.Done(); errA = engineA(c) }()
	}
	if only == "" || strings.Contains(only, "B") {
		wg.Add(1)
		go func() { defer wg.Done(); errB = engineB(c) }()
	}
	wg.Wait()
	if errA != nil {
		return errA
	}
	return errB
}

// replay re-executes a saved divergence.
func replay(c *core.Ctx, path string) error {
	b, err := os.ReadFile(path)
	if err != nil {
		return err
	}
	var art struct {
		Replay Failure `json:"replay"`
	}
	if err := json.Unmarshal(b, &art); err != nil {
		return err
	}
	f := art.Replay
	e := encA
	if f.Engine == "B" {
		e = encB
	}
	if f.Engine == "B" {
		// the artefact holds the matching documents; rebuild, search again, let TLC judge again
		idx, err := buildIndex(e, f.Layout, f.Docs)
		if err != nil {
			return err
		}
		defer idx.Close()
		req, err := newRequest(e, matchQuery(0, f.Docs), f.Variant, []FacetSpec{f.Facet}, false)
		if err != nil {
			return err
		}
		res, err := idx.Search(req)
		if err != nil {
			return err
		}
		c.Eval(1)
		got, note := canon(e, f.Facet, res.Facets[f.Facet.Name])
		if note != "" {
			f.Got, f.Clause, f.Note = got, "shape", note
			report(c, &f)
			return nil
		}
		rec := recordB{Kind: "range", Docs: [][]int{}, Pass: []int{}, Size: f.Facet.Size, Ranges: f.Facet.Ranges, Got: got}
		for _, d := range f.Docs {
			rec.Docs = append(rec.Docs, d.Vals)
		}
		if f.Facet.Kind == "terms" {
			rec.Kind, rec.Pass, rec.Ranges = "terms", f.Facet.Filter.pass(vocabB), []Range{}
		}
		dummy := recordB{Kind: "terms", Docs: [][]int{}, Pass: []int{}, Ranges: []Range{}, Got: FR{List: []Entry{}}}
		withDesign := core.TLCOpt(func(o *tlc.Opts) {
			o.SpecDir = c.SpecDir
			o.Config = filepath.Join("trace", "JudgeFacets.cfg")
		})
		bad, err := c.JudgeRecords("JudgeFacets", "JudgeFacets.cfg", []any{dummy, rec}, 2, withDesign)
		if err != nil {
			return err
		}
		if inv, ok := bad[1]; ok {
			f.Got, f.Clause = got, inv
			report(c, &f)
		} else {
			c.Logf("replay: the TLC judge accepts the result now (%s)", core.Canon(got))
		}
		return nil
	}
	idx, err := buildIndex(e, f.Layout, f.Docs)
	if err != nil {
		return err
	}
	defer idx.Close()
	req, err := newRequest(e, matchQuery(f.Form, f.Docs), f.Variant, []FacetSpec{f.Facet}, false)
	if err != nil {
		return err
	}
	res, err := idx.Search(req)
	if err != nil {
		return err
	}
	c.Eval(1)
	got, note := canon(e, f.Facet, res.Facets[f.Facet.Name])
	if cl := f.Expect.diff(got); cl != "" || note != "" {
		f.Got, f.Clause, f.Note = got, cl, note
		report(c, &f)
	} else {
		c.Logf("replay: divergence not reproduced (got %s)", core.Canon(got))
	}
	return nil
}
