// Package tlaval parses TLA+ values as printed by TLC (state dumps, simulation
// files, dot node labels) into Go values:
//
//	integer            -> int64
//	"string"           -> string
//	TRUE/FALSE         -> bool
//	<<a, b>>           -> Seq ([]any)
//	{a, b}             -> Set ([]any, order as printed)
//	[k |-> v, ...]     -> Rec (map[string]any)
//	(k :> v @@ k :> v) -> Fcn (list of pairs)
//	model value / id   -> Ident
package tlaval

import (
	"fmt"
	"sort"
	"strconv"
	"strings"
)

type Seq []any
type Set []any
type Rec map[string]any
type Ident string
type Pair struct{ K, V any }
type Fcn []Pair

type parser struct {
	s string
	i int
}

func Parse(s string) (any, error) {
	p := &parser{s: s}
	v, err := p.value()
	if err != nil {
		return nil, err
	}
	p.ws()
	if p.i != len(p.s) {
		return nil, fmt.Errorf("trailing input at %d: %q", p.i, p.rest())
	}
	return v, nil
}

func (p *parser) rest() string {
	r := p.s[p.i:]
	if len(r) > 40 {
		r = r[:40]
	}
	return r
}

func (p *parser) ws() {
	for p.i < len(p.s) {
		c := p.s[p.i]
		if c == ' ' || c == '\n' || c == '\t' || c == '\r' {
			p.i++
		} else {
			break
		}
	}
}

func (p *parser) has(tok string) bool {
	p.ws()
	return strings.HasPrefix(p.s[p.i:], tok)
}

func (p *parser) eat(tok string) bool {
	if p.has(tok) {
		p.i += len(tok)
		return true
	}
	return false
}

func (p *parser) value() (any, error) {
	p.ws()
	if p.i >= len(p.s) {
		return nil, fmt.Errorf("unexpected end")
	}
	switch {
	case p.eat("<<"):
		out := Seq{}
		if p.eat(">>") {
			return out, nil
		}
		for {
			v, err := p.value()
			if err != nil {
				return nil, err
			}
			out = append(out, v)
			if p.eat(",") {
				continue
			}
			if p.eat(">>") {
				return out, nil
			}
			return nil, fmt.Errorf("expected , or >> at %d: %q", p.i, p.rest())
		}
	case p.eat("{"):
		out := Set{}
		if p.eat("}") {
			return out, nil
		}
		for {
			v, err := p.value()
			if err != nil {
				return nil, err
			}
			out = append(out, v)
			if p.eat(",") {
				continue
			}
			if p.eat("}") {
				return out, nil
			}
			return nil, fmt.Errorf("expected , or } at %d: %q", p.i, p.rest())
		}
	case p.eat("["):
		out := Rec{}
		if p.eat("]") {
			return out, nil
		}
		for {
			p.ws()
			j := p.i
			for j < len(p.s) && (isIdent(p.s[j])) {
				j++
			}
			if j == p.i {
				return nil, fmt.Errorf("expected field name at %d: %q", p.i, p.rest())
			}
			name := p.s[p.i:j]
			p.i = j
			if !p.eat("|->") {
				return nil, fmt.Errorf("expected |-> at %d: %q", p.i, p.rest())
			}
			v, err := p.value()
			if err != nil {
				return nil, err
			}
			out[name] = v
			if p.eat(",") {
				continue
			}
			if p.eat("]") {
				return out, nil
			}
			return nil, fmt.Errorf("expected , or ] at %d: %q", p.i, p.rest())
		}
	case p.eat("("):
		// function: (k :> v @@ k :> v)
		out := Fcn{}
		for {
			k, err := p.value()
			if err != nil {
				return nil, err
			}
			if !p.eat(":>") {
				return nil, fmt.Errorf("expected :> at %d: %q", p.i, p.rest())
			}
			v, err := p.value()
			if err != nil {
				return nil, err
			}
			out = append(out, Pair{k, v})
			if p.eat("@@") {
				continue
			}
			if p.eat(")") {
				return out, nil
			}
			return nil, fmt.Errorf("expected @@ or ) at %d: %q", p.i, p.rest())
		}
	case p.s[p.i] == '"':
		j := p.i + 1
		var sb strings.Builder
		for j < len(p.s) && p.s[j] != '"' {
			if p.s[j] == '\\' && j+1 < len(p.s) {
				j++
				switch p.s[j] {
				case 'n':
					sb.WriteByte('\n')
				case 't':
					sb.WriteByte('\t')
				default:
					sb.WriteByte(p.s[j])
				}
				j++
				continue
			}
			sb.WriteByte(p.s[j])
			j++
		}
		if j >= len(p.s) {
			return nil, fmt.Errorf("unterminated string")
		}
		p.i = j + 1
		return sb.String(), nil
	case p.s[p.i] == '-' || (p.s[p.i] >= '0' && p.s[p.i] <= '9'):
		j := p.i
		if p.s[j] == '-' {
			j++
		}
		for j < len(p.s) && p.s[j] >= '0' && p.s[j] <= '9' {
			j++
		}
		n, err := strconv.ParseInt(p.s[p.i:j], 10, 64)
		if err != nil {
			return nil, err
		}
		p.i = j
		// interval a..b printed by TLC for some sets
		if strings.HasPrefix(p.s[p.i:], "..") {
			p.i += 2
			hi, err := p.value()
			if err != nil {
				return nil, err
			}
			h, ok := hi.(int64)
			if !ok {
				return nil, fmt.Errorf("bad interval")
			}
			out := Set{}
			for k := n; k <= h; k++ {
				out = append(out, k)
			}
			return out, nil
		}
		return n, nil
	default:
		j := p.i
		for j < len(p.s) && isIdent(p.s[j]) {
			j++
		}
		if j == p.i {
			return nil, fmt.Errorf("unexpected %q at %d", p.rest(), p.i)
		}
		w := p.s[p.i:j]
		p.i = j
		switch w {
		case "TRUE":
			return true, nil
		case "FALSE":
			return false, nil
		}
		return Ident(w), nil
	}
}

func isIdent(c byte) bool {
	return c == '_' || (c >= 'a' && c <= 'z') || (c >= 'A' && c <= 'Z') || (c >= '0' && c <= '9')
}

// State is one TLC state: variable name -> value.
type State map[string]any

// ParseState parses a conjunction "/\ v = val\n/\ w = val" (as in dumps and
// simulation files). A single-variable state "v = val" is accepted too.
func ParseState(text string) (State, error) {
	st := State{}
	text = strings.TrimSpace(text)
	if text == "" {
		return st, nil
	}
	var parts []string
	if strings.HasPrefix(text, "/\\") {
		// split on lines starting with "/\ "
		cur := ""
		for _, ln := range strings.Split(text, "\n") {
			if strings.HasPrefix(ln, "/\\ ") {
				if cur != "" {
					parts = append(parts, cur)
				}
				cur = ln[3:]
			} else {
				cur += "\n" + ln
			}
		}
		if cur != "" {
			parts = append(parts, cur)
		}
	} else {
		parts = []string{text}
	}
	for _, p := range parts {
		eq := strings.Index(p, "=")
		if eq < 0 {
			return nil, fmt.Errorf("no '=' in %q", p)
		}
		name := strings.TrimSpace(p[:eq])
		v, err := Parse(strings.TrimSpace(p[eq+1:]))
		if err != nil {
			return nil, fmt.Errorf("var %s: %v", name, err)
		}
		st[name] = v
	}
	return st, nil
}

// ToJSON converts a parsed value into plain Go data suitable for
// encoding/json: Seq,Set -> []any; Rec -> map; Fcn -> map with string keys
// when all keys are strings/idents/ints, else list of [k,v]; Ident -> string.
func ToJSON(v any) any {
	switch x := v.(type) {
	case Seq:
		out := make([]any, len(x))
		for i := range x {
			out[i] = ToJSON(x[i])
		}
		return out
	case Set:
		out := make([]any, len(x))
		for i := range x {
			out[i] = ToJSON(x[i])
		}
		return out
	case Rec:
		out := map[string]any{}
		for k, e := range x {
			out[k] = ToJSON(e)
		}
		return out
	case Fcn:
		out := map[string]any{}
		for _, pr := range x {
			out[KeyString(pr.K)] = ToJSON(pr.V)
		}
		return out
	case Ident:
		return string(x)
	default:
		return v
	}
}

// KeyString renders a scalar key.
func KeyString(k any) string {
	switch x := k.(type) {
	case string:
		return x
	case Ident:
		return string(x)
	case int64:
		return strconv.FormatInt(x, 10)
	case bool:
		if x {
			return "TRUE"
		}
		return "FALSE"
	default:
		return fmt.Sprint(ToJSON(k))
	}
}

// Helpers for navigating parsed values.

func Int(v any) int { return int(v.(int64)) }

func Str(v any) string {
	switch x := v.(type) {
	case string:
		return x
	case Ident:
		return string(x)
	}
	panic(fmt.Sprintf("tlaval.Str: %T", v))
}

func Bool(v any) bool { return v.(bool) }

// List returns the elements of a Seq or Set; a Fcn with domain 1..n (TLC
// prints sequences built by function constructors that way) is converted.
func List(v any) []any {
	switch x := v.(type) {
	case Seq:
		return []any(x)
	case Set:
		return []any(x)
	case Fcn:
		out := make([]any, len(x))
		ps := append(Fcn(nil), x...)
		sort.Slice(ps, func(i, j int) bool { return ps[i].K.(int64) < ps[j].K.(int64) })
		for i := range ps {
			out[i] = ps[i].V
		}
		return out
	}
	panic(fmt.Sprintf("tlaval.List: %T", v))
}

// Map returns key->value for Rec or Fcn (keys rendered with KeyString).
func Map(v any) map[string]any {
	switch x := v.(type) {
	case Rec:
		return map[string]any(x)
	case Fcn:
		out := map[string]any{}
		for _, pr := range x {
			out[KeyString(pr.K)] = pr.V
		}
		return out
	case Seq:
		out := map[string]any{}
		for i, e := range x {
			out[strconv.Itoa(i+1)] = e
		}
		return out
	}
	panic(fmt.Sprintf("tlaval.Map: %T", v))
}

func Field(v any, name string) any {
	m := Map(v)
	f, ok := m[name]
	if !ok {
		panic("tlaval.Field: no field " + name)
	}
	return f
}
