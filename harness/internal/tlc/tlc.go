// Package tlc runs the TLC model checker on the specifications under
// /verif/spec and parses what it prints.
package tlc

import (
	"bufio"
	"bytes"
	"context"
	"fmt"
	"io"
	"os"
	"os/exec"
	"path/filepath"
	"regexp"
	"runtime"
	"sort"
	"strconv"
	"strings"
	"time"

	"verif/harness/internal/tlaval"
)

const classpath = "/opt/veriftools/tla/tla2tools.jar:/opt/veriftools/tla/CommunityModules-deps.jar"

type Opts struct {
	SpecDir  string            // directory holding the .tla/.cfg files (copied to a scratch dir)
	Module   string            // module name, e.g. "Scorch" (file Module.tla)
	Config   string            // cfg file name relative to SpecDir
	Workers  int               // 0 = min(8, NumCPU)
	Timeout  time.Duration     // hard limit (default 10 min)
	Env      map[string]string // extra environment (trace file paths etc.)
	Args     []string          // extra TLC args
	HeapMB   int               // -Xmx (default 6000)
	DFS      bool              // depth-first state queue (trace validation with branching)
	Scratch  string            // parent scratch directory (required)
	KeepDir  bool              // keep run directory (for -dump / simulate outputs); caller removes
	StackMB  int               // -Xss
	Coverage bool
}

type Result struct {
	ExitCode    int
	Generated   int64
	Distinct    int64
	Depth       int
	OK          bool   // "No error has been found" (or simulation finished) and exit 0
	Violated    string // invariant / property name if a safety violation was reported
	ErrorText   string // first "Error:" block
	Output      string
	RunDir      string
	Wall        time.Duration
	TimedOut    bool
	CounterEx   []TraceState
	PrintT      []string // lines printed by PrintT / Print (heuristic: lines not recognised)
	Uncovered   []string // with Coverage: action/expr lines with count 0
	ActionCount map[string]int64
}

type TraceState struct {
	N      int
	Action string
	State  tlaval.State
}

var (
	reStats    = regexp.MustCompile(`(\d+) states generated, (\d+) distinct states found, (\d+) states left on queue`)
	reDepth    = regexp.MustCompile(`The depth of the complete state graph search is (\d+)`)
	reInv      = regexp.MustCompile(`Error: Invariant (\S+) is violated`)
	reActProp  = regexp.MustCompile(`Error: Action property (\S+) is violated`)
	reSimStat  = regexp.MustCompile(`The number of states generated: (\d+)`)
	reStateHdr = regexp.MustCompile(`^State (\d+): <?([^>]*)>?$`)
)

func copySpecDir(src, dst string) error {
	return filepath.Walk(src, func(p string, info os.FileInfo, err error) error {
		if err != nil {
			return err
		}
		rel, _ := filepath.Rel(src, p)
		if info.IsDir() {
			if strings.HasPrefix(info.Name(), ".") && rel != "." {
				return filepath.SkipDir
			}
			return os.MkdirAll(filepath.Join(dst, rel), 0o755)
		}
		ext := filepath.Ext(p)
		if ext != ".tla" && ext != ".cfg" {
			return nil
		}
		b, err := os.ReadFile(p)
		if err != nil {
			return err
		}
		return os.WriteFile(filepath.Join(dst, rel), b, 0o644)
	})
}

// Run executes TLC. A non-nil error means TLC could not be run or timed out
// (machinery failure); model violations are reported in Result.
func Run(o Opts) (*Result, error) {
	if o.Scratch == "" {
		return nil, fmt.Errorf("tlc: Scratch required")
	}
	if o.Workers == 0 {
		o.Workers = runtime.NumCPU()
		if o.Workers > 8 {
			o.Workers = 8
		}
	}
	if o.Timeout == 0 {
		o.Timeout = 10 * time.Minute
	}
	if o.HeapMB == 0 {
		o.HeapMB = 6000
	}
	runDir, err := os.MkdirTemp(o.Scratch, "tlc-")
	if err != nil {
		return nil, err
	}
	if !o.KeepDir {
		defer os.RemoveAll(runDir)
	}
	if err := copySpecDir(o.SpecDir, runDir); err != nil {
		return nil, err
	}
	cfgDir := filepath.Dir(filepath.Join(runDir, o.Config))
	// TLC resolves modules relative to the spec file's directory; keep spec
	// and cfg in the same directory (trace specs live in spec/trace and
	// extend modules from spec/, so copy those next to them).
	modPath := filepath.Join(cfgDir, o.Module+".tla")
	if _, err := os.Stat(modPath); err != nil {
		return nil, fmt.Errorf("tlc: module %s not found next to %s", o.Module, o.Config)
	}
	if cfgDir != runDir {
		ents, _ := os.ReadDir(runDir)
		for _, e := range ents {
			if !e.IsDir() && filepath.Ext(e.Name()) == ".tla" {
				if _, err := os.Stat(filepath.Join(cfgDir, e.Name())); err != nil {
					b, _ := os.ReadFile(filepath.Join(runDir, e.Name()))
					_ = os.WriteFile(filepath.Join(cfgDir, e.Name()), b, 0o644)
				}
			}
		}
	}
	// TLC creates an (empty) tlc-<n> directory under java.io.tmpdir on every start: keep it
	// inside the run directory, which is removed, instead of littering /tmp
	jtmp := filepath.Join(runDir, "jtmp")
	_ = os.MkdirAll(jtmp, 0o755)
	args := []string{"-XX:+UseParallelGC", fmt.Sprintf("-Xmx%dm", o.HeapMB), "-Djava.io.tmpdir=" + jtmp}
	if o.StackMB == 0 {
		// recursive operators over strings / sequences (lexer, sentences, sorts) overflow the
		// default thread stack now and then; a StackOverflowError is not a verdict
		o.StackMB = 256
	}
	if o.StackMB > 0 {
		args = append(args, fmt.Sprintf("-Xss%dm", o.StackMB))
	}
	if o.DFS {
		args = append(args, "-Dtlc2.tool.queue.IStateQueue=StateDeque")
	}
	args = append(args, "-cp", classpath, "tlc2.TLC",
		"-workers", strconv.Itoa(o.Workers),
		"-metadir", filepath.Join(runDir, "meta"),
		"-config", filepath.Base(o.Config), "-noGenerateSpecTE")
	if o.Coverage {
		args = append(args, "-coverage", "1")
	}
	args = append(args, o.Args...)
	args = append(args, o.Module+".tla")
	ctx, cancel := context.WithTimeout(context.Background(), o.Timeout)
	defer cancel()
	cmd := exec.CommandContext(ctx, "java", args...)
	cmd.Dir = cfgDir
	cmd.Env = os.Environ()
	for k, v := range o.Env {
		cmd.Env = append(cmd.Env, k+"="+v)
	}
	var out bytes.Buffer
	cmd.Stdout = &out
	cmd.Stderr = &out
	start := time.Now()
	runErr := cmd.Run()
	res := &Result{Output: out.String(), RunDir: runDir, Wall: time.Since(start)}
	if ctx.Err() == context.DeadlineExceeded {
		res.TimedOut = true
		return res, fmt.Errorf("tlc: timeout after %s (%s %s)", o.Timeout, o.Module, o.Config)
	}
	if ee, ok := runErr.(*exec.ExitError); ok {
		res.ExitCode = ee.ExitCode()
	} else if runErr != nil {
		return res, fmt.Errorf("tlc: %v", runErr)
	}
	parseOutput(res)
	return res, nil
}

func parseOutput(res *Result) {
	s := res.Output
	if ms := reStats.FindAllStringSubmatch(s, -1); len(ms) > 0 {
		m := ms[len(ms)-1]
		res.Generated, _ = strconv.ParseInt(m[1], 10, 64)
		res.Distinct, _ = strconv.ParseInt(m[2], 10, 64)
	} else if m := reSimStat.FindStringSubmatch(s); m != nil {
		res.Generated, _ = strconv.ParseInt(m[1], 10, 64)
		res.Distinct = res.Generated
	}
	if m := reDepth.FindStringSubmatch(s); m != nil {
		res.Depth, _ = strconv.Atoi(m[1])
	}
	if m := reInv.FindStringSubmatch(s); m != nil {
		res.Violated = m[1]
	} else if m := reActProp.FindStringSubmatch(s); m != nil {
		res.Violated = m[1]
	} else if strings.Contains(s, "Error: Temporal properties were violated") {
		res.Violated = "<temporal>"
	} else if strings.Contains(s, "Error: Deadlock reached") {
		res.Violated = "<deadlock>"
	}
	if i := strings.Index(s, "Error:"); i >= 0 {
		e := s[i:]
		if len(e) > 1500 {
			e = e[:1500]
		}
		res.ErrorText = e
	}
	res.OK = res.ExitCode == 0 && res.ErrorText == "" &&
		(strings.Contains(s, "No error has been found") || strings.Contains(s, "Simulation using seed") || reSimStat.MatchString(s))
	if res.Violated != "" {
		res.CounterEx = parseCounterEx(s)
	}
	// coverage
	res.ActionCount = map[string]int64{}
	reCov := regexp.MustCompile(`^<(\w+) line (\d+), col \d+ to line \d+, col \d+ of module (\w+)>: (\d+):(\d+)`)
	sc := bufio.NewScanner(strings.NewReader(s))
	sc.Buffer(make([]byte, 1<<20), 1<<26)
	for sc.Scan() {
		ln := sc.Text()
		if m := reCov.FindStringSubmatch(ln); m != nil {
			n, _ := strconv.ParseInt(m[5], 10, 64)
			res.ActionCount[m[3]+"!"+m[1]] += n
		}
	}
	for k, v := range res.ActionCount {
		if v == 0 {
			res.Uncovered = append(res.Uncovered, k)
		}
	}
	sort.Strings(res.Uncovered)
}

func parseCounterEx(s string) []TraceState {
	var out []TraceState
	lines := strings.Split(s, "\n")
	for i := 0; i < len(lines); i++ {
		m := reStateHdr.FindStringSubmatch(strings.TrimSpace(lines[i]))
		if m == nil {
			continue
		}
		n, _ := strconv.Atoi(m[1])
		var body []string
		j := i + 1
		for ; j < len(lines); j++ {
			if strings.TrimSpace(lines[j]) == "" {
				break
			}
			body = append(body, lines[j])
		}
		st, err := tlaval.ParseState(strings.Join(body, "\n"))
		if err == nil {
			out = append(out, TraceState{N: n, Action: m[2], State: st})
		}
		i = j
	}
	return out
}

// Behaviour is one simulated behaviour: its states in order.
type Behaviour []tlaval.State

// Simulate runs `tlc -simulate file=...,num=N -depth D -seed S` (one worker so
// that num is exact) and parses the behaviour files.
func Simulate(o Opts, num, depth int, seed int64) ([]Behaviour, *Result, error) {
	o.Workers = 1
	o.KeepDir = true
	if o.Scratch == "" {
		return nil, nil, fmt.Errorf("tlc: Scratch required")
	}
	simDir, err := os.MkdirTemp(o.Scratch, "sim-")
	if err != nil {
		return nil, nil, err
	}
	defer os.RemoveAll(simDir)
	o.Args = append(o.Args, "-simulate", fmt.Sprintf("file=%s/b,num=%d", simDir, num),
		"-depth", strconv.Itoa(depth), "-seed", strconv.FormatInt(seed, 10))
	res, err := Run(o)
	if res != nil {
		defer os.RemoveAll(res.RunDir)
	}
	if err != nil {
		return nil, res, err
	}
	ents, _ := os.ReadDir(simDir)
	var names []string
	for _, e := range ents {
		names = append(names, e.Name())
	}
	sort.Strings(names)
	var out []Behaviour
	for _, n := range names {
		b, err := os.ReadFile(filepath.Join(simDir, n))
		if err != nil {
			return nil, res, err
		}
		beh, err := ParseBehaviourFile(string(b))
		if err != nil {
			return nil, res, fmt.Errorf("%s: %v", n, err)
		}
		out = append(out, beh)
	}
	return out, res, nil
}

var reStateDef = regexp.MustCompile(`(?m)^STATE_(\d+) == *$`)

func ParseBehaviourFile(s string) (Behaviour, error) {
	idx := reStateDef.FindAllStringIndex(s, -1)
	var out Behaviour
	for k, loc := range idx {
		end := len(s)
		if k+1 < len(idx) {
			end = idx[k+1][0]
		}
		body := s[loc[1]:end]
		// cut trailing comment header of the next state / module end
		if i := strings.Index(body, "\n\\* <"); i >= 0 {
			body = body[:i]
		}
		if i := strings.Index(body, "\n====="); i >= 0 {
			body = body[:i]
		}
		st, err := tlaval.ParseState(strings.TrimSpace(body))
		if err != nil {
			return nil, err
		}
		// the comment line before "STATE_n ==" names the action: \* <Name line ...>
		hdr := s[:loc[0]]
		if i := strings.LastIndex(hdr, "\\* <"); i >= 0 {
			name := hdr[i+4:]
			if j := strings.Index(name, " line "); j >= 0 {
				name = name[:j]
			}
			args := ""
			if j := strings.Index(name, "("); j >= 0 {
				args = strings.TrimSuffix(name[j+1:], ")")
				name = name[:j]
			}
			st["_action"] = name
			st["_args"] = args
		}
		out = append(out, st)
	}
	return out, nil
}

// DumpStates runs an exhaustive check with `-dump` and streams every distinct
// state to fn. Returns the TLC result.
func DumpStates(o Opts, fn func(tlaval.State) error) (*Result, error) {
	o.KeepDir = true
	dumpDir, err := os.MkdirTemp(o.Scratch, "dump-")
	if err != nil {
		return nil, err
	}
	defer os.RemoveAll(dumpDir)
	dumpFile := filepath.Join(dumpDir, "states")
	o.Args = append(o.Args, "-dump", dumpFile)
	res, err := Run(o)
	if res != nil {
		defer os.RemoveAll(res.RunDir)
	}
	if err != nil {
		return res, err
	}
	f, err := os.Open(dumpFile + ".dump")
	if err != nil {
		return res, err
	}
	defer f.Close()
	rd := bufio.NewReaderSize(f, 1<<20)
	var body []string
	flush := func() error {
		if len(body) == 0 {
			return nil
		}
		st, err := tlaval.ParseState(strings.Join(body, "\n"))
		body = body[:0]
		if err != nil {
			return err
		}
		return fn(st)
	}
	for {
		ln, err := rd.ReadString('\n')
		t := strings.TrimRight(ln, "\n")
		if strings.HasPrefix(t, "State ") && strings.HasSuffix(t, ":") {
			if e := flush(); e != nil {
				return res, e
			}
		} else if strings.TrimSpace(t) != "" {
			body = append(body, t)
		}
		if err == io.EOF {
			break
		}
		if err != nil {
			return res, err
		}
	}
	if e := flush(); e != nil {
		return res, e
	}
	return res, nil
}
