// Package selftest exercises the framework itself (not a property check).
package selftest

import (
	"fmt"

	"verif/harness/internal/core"
)

func init() {
	core.Register(&core.Check{Prop: "SELFTEST", Level: "model_checking", Run: run})
}

func run(c *core.Ctx) error {
	recs := []any{}
	for i := 0; i < 50; i++ {
		s := i + 2*i
		if i == 17 || i == 33 {
			s++
		}
		recs = append(recs, map[string]any{"a": i, "b": 2 * i, "sum": s})
	}
	bad, err := c.JudgeRecords("JudgeDemo", "JudgeDemo.cfg", recs, 10)
	if err != nil {
		return err
	}
	if len(bad) != 2 || bad[17] != "RecordOK" || bad[33] != "RecordOK" {
		return fmt.Errorf("selftest: expected records 17 and 33 rejected, got %v", bad)
	}
	c.Eval(len(recs))
	c.Distinct("a")
	c.Distinct("b")
	c.Traces(1)
	c.Sample(recs[1])
	c.SetRule("framework self-test")
	return nil
}
