// Package c03: "Acknowledged batches survive a crash; every batch is
// all-or-nothing".
//
// Model decides: spec/ScorchDisk.tla — TLC evaluates Durable / NewestLoads /
// EveryBoltIsAState / BoltFilesOnDisk in EVERY reachable state of the
// persist / merge / purge pipeline (a crash is a state function, not a
// transition).
//
// Code is bound by: fault enumeration with a real process kill. A child
// process runs a seeded workload on a disk scorch index with the verif hooks
// installed; at the K-th hook hit (every instrumented step of persist,
// in-memory merge, file merge, purge, file removal, at every occurrence) it
// SIGKILLs itself — a true kill: every goroutine stops wherever it is. The
// parent optionally truncates / garbles / deletes the zap files no committed
// bolt snapshot names, reopens the directory with bleve.Open, observes it,
// applies one more batch, and TLC judges the whole trace
// (spec/trace/TraceCrash.tla) against the replay operators of ScorchOps.tla.
package c03

import (
	"bufio"
	"context"
	"encoding/json"
	"fmt"
	"math/rand"
	"os"
	"os/exec"
	"path/filepath"
	"sort"
	"strconv"
	"strings"
	"sync"
	"syscall"
	"time"

	bleve "github.com/blevesearch/bleve/v2"
	"github.com/blevesearch/bleve/v2/index/scorch"

	"verif/harness/internal/bx"
	"verif/harness/internal/core"
	"verif/harness/internal/sx"
)

func init() {
	core.Register(&core.Check{Prop: "C03", Level: "model_checking", Run: run, Replay: replay})
	core.RegisterChild("crash", childMain)
}

// ---------------------------------------------------------------- child

func childMain(args []string) int {
	if len(args) < 4 {
		fmt.Fprintln(os.Stderr, "usage: child:crash <indexDir> <workload.json> <crashAt> <events>")
		return 2
	}
	dir, wlFile, evFile := args[0], args[1], args[3]
	crashAt, _ := strconv.Atoi(args[2])
	var wl sx.Workload
	b, err := os.ReadFile(wlFile)
	if err != nil || json.Unmarshal(b, &wl) != nil {
		fmt.Fprintln(os.Stderr, "bad workload")
		return 2
	}
	rec := sx.NewRecorder("")
	if err := rec.ToFile(evFile); err != nil {
		fmt.Fprintln(os.Stderr, err)
		return 2
	}
	var armed bool
	var base int
	rec.Gate = func(point string, hit int, s *scorch.Scorch) {
		if wl.LockPauseUS > 0 && (point == "persist.take" || point == "merge.take") {
			time.Sleep(time.Duration(wl.LockPauseUS) * time.Microsecond)
		}
		if armed && crashAt > 0 && hit-base == crashAt {
			rec.Emit("Crash", map[string]any{"point": point, "at": crashAt})
			_ = syscall.Kill(os.Getpid(), syscall.SIGKILL)
			select {}
		}
	}
	rec.Install()
	rec.Emit("Reset", map[string]any{"safe": wl.Safe})
	idx, err := sx.OpenScorch(dir, wl.KVConfig)
	if err != nil {
		fmt.Fprintln(os.Stderr, "create:", err)
		return 2
	}
	// Index creation itself (index_meta.json + the mapping stored through an
	// internal-key batch) is outside the property: with unsafe_batch the mapping
	// batch is not durable when NewUsing returns (DESIGN section 8, lead 9), so
	// the workload starts once the creation has been persisted.
	if sc := bx.AsScorch(idx); sc != nil {
		bx.WaitPersisted(sc, 20*time.Second)
	}
	base = rec.Hits()
	armed = true
	rec.Emit("Ready", nil)

	var numMu sync.Mutex
	next := 0
	var wg sync.WaitGroup
	for w := 1; w <= wl.Writers; w++ {
		wg.Add(1)
		go func(w int) {
			defer wg.Done()
			for _, bs := range wl.Batches {
				if bs.W != w {
					continue
				}
				numMu.Lock()
				next++
				bs.B = next
				rec.Emit("Submit", map[string]any{"b": bs.B, "w": w, "puts": bs.Puts, "dels": bs.Dels})
				numMu.Unlock()
				bn := bs.B
				batch, err := sx.BuildBatch(idx, bs, func(err error) {
					if err == nil {
						rec.Emit("Callback", map[string]any{"b": bn})
					}
				})
				if err != nil {
					fmt.Fprintln(os.Stderr, "build:", err)
					os.Exit(2)
				}
				if err := idx.Batch(batch); err == nil {
					rec.Emit("Return", map[string]any{"b": bn})
				} else {
					rec.Emit("ReturnErr", map[string]any{"b": bn, "err": err.Error()})
				}
			}
		}(w)
	}
	wg.Wait()
	sc := bx.AsScorch(idx)
	for _, op := range wl.Tail {
		switch op {
		case "persist":
			if sc != nil {
				bx.WaitPersisted(sc, 20*time.Second)
			}
		case "merge":
			if sc != nil {
				_ = bx.ForceMerge(sc)
			}
		case "cancelmerge":
			// a forced merge whose context is already cancelled: the merge is abandoned
			if sc != nil {
				ctx, cancel := context.WithCancel(context.Background())
				cancel()
				_ = sc.ForceMerge(ctx, nil)
			}
		case "close":
			if err := idx.Close(); err != nil {
				rec.Emit("CloseErr", map[string]any{"err": err.Error()})
			} else {
				rec.Emit("Closed", nil)
			}
			idx = nil
		case "reopen":
			// the same process closes the index and opens it again: what the new instance loaded
			// from the metadata store stays in use for the rest of the process's life
			if err := idx.Close(); err != nil {
				fmt.Fprintln(os.Stderr, "close before reopen:", err)
				return 2
			}
			idx, err = bleve.Open(dir)
			if err != nil {
				fmt.Fprintln(os.Stderr, "reopen:", err)
				return 2
			}
			sc = bx.AsScorch(idx)
		default:
			if strings.HasPrefix(op, "more:") { // n more batches by writer 1
				n, _ := strconv.Atoi(strings.TrimPrefix(op, "more:"))
				ids := []string{"a", "b", "c", "d"}
				for k := 0; k < n; k++ {
					numMu.Lock()
					next++
					bs := sx.BatchSpec{B: next, W: 1, Puts: []string{ids[k%4]}, Dels: []string{}}
					if k%5 == 4 {
						bs.Dels = []string{ids[(k+1)%4]}
					}
					rec.Emit("Submit", map[string]any{"b": bs.B, "w": 1, "puts": bs.Puts, "dels": bs.Dels})
					numMu.Unlock()
					bn := bs.B
					batch, berr := sx.BuildBatch(idx, bs, func(err error) {
						if err == nil {
							rec.Emit("Callback", map[string]any{"b": bn})
						}
					})
					if berr != nil {
						fmt.Fprintln(os.Stderr, "build:", berr)
						return 2
					}
					// an application value of some size, rewritten now and then (metadata-store page churn)
					if k%7 == 0 {
						batch.SetInternal([]byte("pad"), []byte(strings.Repeat(fmt.Sprintf("p%03d.", k), 60)))
					}
					if err := idx.Batch(batch); err == nil {
						rec.Emit("Return", map[string]any{"b": bn})
					} else {
						rec.Emit("ReturnErr", map[string]any{"b": bn, "err": err.Error()})
					}
				}
			}
		}
	}
	if idx != nil {
		_ = idx.Close()
		rec.Emit("Closed", nil)
	}
	return 0
}

// ---------------------------------------------------------------- parent

type runSpec struct {
	WL        sx.Workload   `json:"workload"`
	CrashAt   int           `json:"crash_at"`   // hook hit (after index creation) at which the child kills itself; 0 = run to clean close
	KillAfter time.Duration `json:"kill_after"` // >0: parent kills the child after this wall-clock delay instead
	Variant   string        `json:"variant"`    // none | truncate | garbage | delete  (applied to zap files no bolt snapshot names)
}

type runResult struct {
	Spec      runSpec        `json:"spec"`
	Records   []any          `json:"records"` // TraceCrash records of this run
	Hits      int            `json:"hits"`
	CrashedAt string         `json:"crashed_at"`
	Killed    bool           `json:"killed"`
	Unnamed   []string       `json:"unnamed_files"`
	Bolt      []sx.BoltEpoch `json:"bolt"`
	Err       string         `json:"err,omitempty"`
}

var traceEvents = map[string]bool{"Reset": true, "Submit": true, "IntroSegment": true, "Return": true, "Callback": true, "PersistCommitted": true, "MemMergeEquiv": true}

func readEvents(path string) ([]sx.Event, error) {
	f, err := os.Open(path)
	if err != nil {
		return nil, err
	}
	defer f.Close()
	var out []sx.Event
	sc := bufio.NewScanner(f)
	sc.Buffer(make([]byte, 1<<20), 1<<26)
	for sc.Scan() {
		var ev sx.Event
		if json.Unmarshal(sc.Bytes(), &ev) != nil {
			continue // a torn last line after SIGKILL
		}
		out = append(out, ev)
	}
	return out, nil
}

func num(v any) int {
	switch x := v.(type) {
	case float64:
		return int(x)
	case int:
		return x
	}
	return 0
}

// stuckChild: an undisturbed child (no kill requested) stopped making progress
// for over a minute with index calls in flight.
type stuckChild struct {
	Workload  string
	InFlight  []int
	LastEvent string
	Events    int
}

func (s *stuckChild) Error() string {
	return fmt.Sprintf("undisturbed child of workload %s made no progress for over a minute: batches %v submitted and not returned, %d events, last %s", s.Workload, s.InFlight, s.Events, s.LastEvent)
}

func execute(c *core.Ctx, rs runSpec) (*runResult, error) {
	res := &runResult{Spec: rs}
	work := c.TempDir("crash")
	defer os.RemoveAll(work)
	idxDir := filepath.Join(work, "idx")
	wlFile := filepath.Join(work, "wl.json")
	evFile := filepath.Join(work, "events.ndjson")
	b, _ := json.Marshal(rs.WL)
	if err := os.WriteFile(wlFile, b, 0o644); err != nil {
		return nil, err
	}
	ctx, cancel := context.WithTimeout(context.Background(), 120*time.Second)
	defer cancel()
	cmd := exec.CommandContext(ctx, core.SelfExe(), "child:crash", idxDir, wlFile, strconv.Itoa(rs.CrashAt), evFile)
	cmd.Stderr = os.Stderr
	if err := cmd.Start(); err != nil {
		return nil, err
	}
	if rs.KillAfter > 0 {
		go func() {
			time.Sleep(rs.KillAfter)
			_ = cmd.Process.Kill()
		}()
	}
	err := cmd.Wait()
	if ctx.Err() != nil {
		// slow or stuck? A child that is merely slow keeps appending events; one whose
		// event file has not grown for a minute is stuck in a call that does not return.
		if st, serr := os.Stat(evFile); serr == nil && time.Since(st.ModTime()) > 60*time.Second && rs.CrashAt == 0 && rs.KillAfter == 0 {
			evs, _ := readEvents(evFile)
			inflight := map[int]bool{}
			last := ""
			for _, ev := range evs {
				name, _ := ev["ev"].(string)
				switch name {
				case "Submit":
					inflight[num(ev["b"])] = true
				case "Return", "ReturnErr":
					delete(inflight, num(ev["b"]))
				}
				last = name
			}
			var bs []int
			for b := range inflight {
				bs = append(bs, b)
			}
			sort.Ints(bs)
			return nil, &stuckChild{Workload: rs.WL.Name, InFlight: bs, LastEvent: last, Events: len(evs)}
		}
		return nil, fmt.Errorf("crash child timed out (workload %s crashAt %d)", rs.WL.Name, rs.CrashAt)
	}
	if ee, ok := err.(*exec.ExitError); ok {
		if ws, ok := ee.Sys().(syscall.WaitStatus); ok && ws.Signaled() {
			res.Killed = true
		} else {
			return nil, fmt.Errorf("crash child failed: %v", err)
		}
	} else if err != nil {
		return nil, err
	}
	evs, err := readEvents(evFile)
	if err != nil {
		if os.IsNotExist(err) && res.Killed {
			return res, nil // killed before the child wrote anything
		}
		return nil, err
	}
	ready := false
	nsub := 0
	for _, ev := range evs {
		name, _ := ev["ev"].(string)
		switch name {
		case "Ready":
			ready = true
		case "Crash":
			res.CrashedAt, _ = ev["point"].(string)
		case "Submit":
			nsub++
		}
		if h := num(ev["hit"]); h > res.Hits {
			res.Hits = h
		}
		if !traceEvents[name] {
			continue
		}
		if name == "MemMergeEquiv" || name == "PersistCommitted" {
			res.Records = append(res.Records, sx.CrashRecords([]sx.Event{ev})...)
			continue
		}
		r := map[string]any{"ev": name}
		switch name {
		case "Reset":
			r["safe"] = ev["safe"]
		case "Submit":
			r["b"], r["puts"], r["dels"] = num(ev["b"]), ev["puts"], ev["dels"]
		case "IntroSegment":
			r["b"] = num(ev["b"])
			r["epoch"] = 0
			if rt, ok := ev["root"].(map[string]any); ok {
				r["epoch"] = num(rt["epoch"])
			}
		case "PersistCommitted":
			r["epoch"] = num(ev["epoch"])
		default:
			r["b"] = num(ev["b"])
		}
		res.Records = append(res.Records, r)
	}
	if !ready {
		// killed (externally) before the index existed: nothing the property speaks about
		res.Records = nil
		return res, nil
	}
	// what does the directory hold?
	store := sx.StoreDir(idxDir)
	bolt, berr := sx.ReadBolt(store)
	if berr == nil {
		res.Bolt = bolt
		named := map[string]bool{}
		for _, be := range bolt {
			for _, f := range be.Files {
				named[f] = true
			}
		}
		for _, f := range sx.ZapFiles(store) {
			if !named[f] {
				res.Unnamed = append(res.Unnamed, f)
			}
		}
		for _, f := range res.Unnamed {
			p := filepath.Join(store, f)
			switch rs.Variant {
			case "truncate":
				if st, err := os.Stat(p); err == nil {
					_ = os.Truncate(p, st.Size()/2)
				}
			case "garbage":
				if st, err := os.Stat(p); err == nil {
					junk := make([]byte, st.Size())
					rand.New(rand.NewSource(int64(len(f)) + st.Size())).Read(junk)
					_ = os.WriteFile(p, junk, 0o644)
				}
			case "delete":
				_ = os.Remove(p)
			}
		}
	}
	rec := map[string]any{"ev": "Recovered", "kind": "crash", "min": 0, "opened": false, "docs": []any{}, "seq": 0, "count": 0, "matchall": []any{}}
	idx, err := bleve.Open(idxDir)
	if err != nil {
		res.Err = "open: " + err.Error()
		res.Records = append(res.Records, rec)
		return res, nil
	}
	defer func() {
		if idx != nil {
			_ = idx.Close()
		}
	}()
	cont, err := sx.ObserveContent(idx)
	if err != nil {
		res.Err = "observe: " + err.Error()
		res.Records = append(res.Records, rec)
		return res, nil
	}
	rec["opened"], rec["docs"], rec["seq"], rec["count"], rec["matchall"] = true, cont.Docs, cont.Seq, cont.Count, cont.MatchAll
	res.Records = append(res.Records, rec)
	// the reopened index accepts further writes correctly
	nb := sx.BatchSpec{B: nsub + 1, W: 1, Puts: []string{"a", "c"}, Dels: []string{"b"}}
	batch, err := sx.BuildBatch(idx, nb, nil)
	if err == nil {
		err = idx.Batch(batch)
	}
	if err != nil {
		res.Err = "post-write: " + err.Error()
		res.Records = append(res.Records, map[string]any{"ev": "PostWrite", "b": nb.B, "puts": nb.Puts, "dels": nb.Dels,
			"docs": []any{}, "prev": cont.Docs, "seq": -1, "count": -1})
		return res, nil
	}
	after, err := sx.ObserveContent(idx)
	if err != nil {
		return nil, err
	}
	res.Records = append(res.Records, map[string]any{"ev": "PostWrite", "b": nb.B, "puts": nb.Puts, "dels": nb.Dels,
		"docs": after.Docs, "prev": cont.Docs, "seq": after.Seq, "count": after.Count})
	return res, nil
}

func workloads(c *core.Ctx) []sx.Workload {
	rng := rand.New(rand.NewSource(c.Seed))
	var out []sx.Workload
	add := func(name string, nb, writers int, safe bool, kv map[string]interface{}) {
		w := sx.RandomWorkload(rng, nb, writers, safe, kv)
		w.Name = name
		out = append(out, w)
	}
	add("safe-1w", 5, 1, true, nil)
	add("unsafe-2w", 6, 2, false, nil)
	add("safe-2w-keep3", 5, 2, true, map[string]interface{}{"numSnapshotsToKeep": 3})
	add("safe-1w-reopen-many", 3, 1, true, nil)
	out[len(out)-1].Tail = []string{"persist", "reopen", "more:40", "persist", "reopen", "more:40", "persist", "close"}
	add("safe-4w-slowtake", 12, 4, true, nil)
	out[len(out)-1].LockPauseUS = 2500
	// ScorchDisk!Restart with KeepN = 2 (ScorchDisk_mc_restart.cfg, NewNamesUnused): the newest
	// segments are emptied by a delete batch and dropped from the root while an older recorded
	// snapshot still names their (longer) files; the index is opened again and written to
	out = append(out, sx.Workload{Name: "safe-1w-keep2-emptied-tail-reopen", Writers: 1, Safe: true,
		KVConfig: map[string]interface{}{"numSnapshotsToKeep": 2, "scorchMergePlanOptions": map[string]interface{}{"FloorSegmentSize": 1}},
		Batches: []sx.BatchSpec{{W: 1, Puts: []string{"a"}, Dels: []string{}}, {W: 1, Puts: []string{"b"}, Dels: []string{}},
			{W: 1, Puts: []string{"c", "d"}, Dels: []string{}}, {W: 1, Puts: []string{}, Dels: []string{"b", "c", "d"}}},
		Tail: []string{"persist", "reopen", "more:1", "persist", "reopen", "more:2", "persist", "close"}})
	// several in-memory segments per persist round, cut into flush groups of limited size
	// (ScorchDisk!PMMWrite / PMMCommit: the equivalent snapshot; TraceCrash!EquivIsTheTakenState)
	add("unsafe-2w-flushgroups", 9, 2, false, map[string]interface{}{"scorchPersisterOptions": map[string]interface{}{
		"MaxSizeInMemoryMergePerWorker": 1}})
	if c.Thorough() {
		add("unsafe-3workers", 8, 2, false, map[string]interface{}{"scorchPersisterOptions": map[string]interface{}{
			"NumPersisterWorkers": 3, "MaxSizeInMemoryMergePerWorker": 1}})
		add("safe-1w-long", 10, 1, true, nil)
		add("unsafe-1w-keep2", 8, 1, false, map[string]interface{}{"numSnapshotsToKeep": 2})
		for i := 0; i < 4; i++ {
			add(fmt.Sprintf("rand-%d", i), 4+rng.Intn(6), 1+rng.Intn(2), rng.Intn(2) == 0, nil)
		}
	}
	return out
}

// closeDuringSafeBatches: Close arrives at the scorch index (index.Index API,
// below bleve's own lock) while safe batches wait for their persistence and the
// persister is inside persistSnapshot. The clean Close is then followed by a
// reopen: every batch whose call returned without an error must be there.
func closeDuringSafeBatches(c *core.Ctx, seed int64) (*runResult, error) {
	base := c.TempDir("c03close")
	defer os.RemoveAll(base)
	dir := filepath.Join(base, "idx")
	wl := sx.Workload{Name: "close-during-safe-batches", Writers: 2, Safe: true, KVConfig: map[string]interface{}{}}
	r, err := sx.Start(dir, wl, seed, 0)
	if err != nil {
		return nil, err
	}
	res := &runResult{Spec: runSpec{WL: wl, Variant: "none"}}
	if _, err := r.Submit(sx.BatchSpec{W: 1, Puts: []string{"a"}, Dels: []string{}}); err != nil {
		return nil, err
	}
	r.Quiesce(20 * time.Second)
	// park the persister at the start of its next round until Close has begun
	point := []string{"persist.begin", "persist.filesWritten", "persist.beforeIntro"}[int(seed)%3]
	r.SetHolds([]sx.HoldRule{{Point: point, Until: "CloseBegin", Count: 1, Timeout: 10 * time.Second, Prob: 1, Once: true}})
	// ONE waiting batch: a second one introduced after the persister took its snapshot
	// would wait for ever (its channel stays in rootPersisted when the persister exits) -
	// a scorch-level lead outside this property, see DESIGN 11.3
	done := make(chan error, 1)
	go func() {
		_, err := r.SubmitDirect(sx.BatchSpec{W: 1, Puts: []string{"b", "c"}, Dels: []string{"a"}})
		done <- err
	}()
	if !r.WaitParked(point, 1, 10*time.Second) {
		r.SetHolds(nil)
		_ = r.Close()
		return nil, fmt.Errorf("close-during-safe-batches: the persister did not reach %s", point)
	}
	time.Sleep(2 * time.Millisecond)
	cerr := r.Sc.Close() // below bleve's indexImpl: not serialised against the waiting batches
	select {
	case <-done:
	case <-time.After(30 * time.Second):
		return nil, fmt.Errorf("close-during-safe-batches: the safe batch did not return after Close")
	}
	if cerr != nil {
		res.Err = "close: " + cerr.Error()
	}
	res.Records = sx.CrashRecords(r.Rec.Events())
	rec, _, idx := sx.RecoveredRecord(dir, "close", nil)
	if idx != nil {
		_ = idx.Close()
	}
	res.Records = append(res.Records, rec)
	res.CrashedAt = "close@" + point
	return res, nil
}

var variants = []string{"none", "truncate", "garbage", "delete"}

func run(c *core.Ctx) error {
	c.SetRule("one evaluation = one child process running a seeded batch workload on a disk scorch index, killed (SIGKILL to itself) at the K-th hook hit after index creation " +
		"(or run to a clean Close, or killed by the parent at a wall-clock instant), then: unnamed zap files left/truncated/garbled/deleted, bleve.Open, full observation, one more batch, observation; " +
		"TLC (TraceCrash.tla) judges every run. distinct_nontrivial = distinct (workload, hook point name, occurrence, corruption variant) at which a kill really happened and at least one batch had been submitted")
	c.Assume("bbolt's own commit atomicity; a process kill (not power loss): page-cache contents survive")
	c.Assume("documents carry their batch number as version in a stored field; internal key seq = batch number")

	// 1. the model decides
	mcfg := "ScorchDisk_mc_disk.cfg"
	if _, ok := c.ModelCheck("ScorchDisk", mcfg, core.Workers(8), core.Timeout(25*time.Minute), core.Heap(8000)); !ok {
		return nil
	}
	// the process dies at any instant and the index is opened again (ScorchDisk!Restart, KeepN = 2):
	// all invariants continue to hold in the second life; the design that starts new segment
	// ids beyond the ids of the recovered root (instead of beyond every file number in the
	// directory) is refuted - it hands out the name of a file an older snapshot still holds
	if _, ok := c.ModelCheck("ScorchDisk", "ScorchDisk_mc_restart.cfg", core.Workers(8), core.Timeout(25*time.Minute), core.Heap(8000)); !ok {
		return nil
	}
	if _, ok := c.ModelRefutes("ScorchDisk", "ScorchDisk_mc_restart_sidfromroot.cfg", "NewNamesUnused", core.Workers(8), core.Timeout(25*time.Minute), core.Heap(8000)); !ok {
		return nil
	}

	// 2. fault enumeration on the real code
	var specs []runSpec
	for _, wl := range workloads(c) {
		// dry run to learn the number of gate hits
		dry, err := execute(c, runSpec{WL: wl, Variant: "none"})
		if st, ok := err.(*stuckChild); ok {
			// "the reopened index accepts further writes": a call on a healthy index that never
			// comes back is a failure of that clause - if it does so again (reproduce-twice rule)
			_, err2 := execute(c, runSpec{WL: wl, Variant: "none"})
			if st2, ok2 := err2.(*stuckChild); ok2 {
				c.Violation("c03/write-never-returns/"+wl.Name, fmt.Sprintf("%v (twice: %v)", st, st2), map[string]any{"workload": wl})
				continue
			}
			return err
		}
		if err != nil {
			return err
		}
		c.Eval(1)
		specs0 := []runSpec{}
		n := dry.Hits
		c.Logf("workload %s: %d batches, %d hook hits in a clean run", wl.Name, len(wl.Batches), n)
		step := 1
		if c.Quick() {
			step = n/45 + 1
		}
		off := int(c.Seed) % step
		for k := 1 + off; k <= n+5; k += step {
			v := variants[(k/step+int(c.Seed))%len(variants)]
			specs0 = append(specs0, runSpec{WL: wl, CrashAt: k, Variant: v})
			if c.Thorough() {
				for _, v2 := range variants {
					if v2 != v && (k%3 == 0) {
						specs0 = append(specs0, runSpec{WL: wl, CrashAt: k, Variant: v2})
					}
				}
			}
		}
		// wall-clock kills
		nk := c.Pick(4, 40)
		for i := 0; i < nk; i++ {
			specs0 = append(specs0, runSpec{WL: wl, KillAfter: time.Duration(20+c.Rand.Intn(400)) * time.Millisecond, Variant: variants[i%len(variants)]})
		}
		if wl.LockPauseUS > 0 {
			// more clean runs of the slow-machine schedule: acknowledgements are judged
			// against the commits on every recorded run, killed or not
			for i := 0; i < c.Pick(6, 24); i++ {
				specs0 = append(specs0, runSpec{WL: wl, Variant: "none"})
			}
		}
		specs = append(specs, specs0...)
		// the clean run itself is a case (clean Close, then reopen)
		report(c, []*runResult{dry})
	}
	// Close below bleve's lock while safe batches wait
	{
		var rs []*runResult
		for k := 0; k < c.Pick(3, 9); k++ {
			r, err := closeDuringSafeBatches(c, c.Seed*7+int64(k))
			if err != nil {
				return err
			}
			c.Eval(1)
			c.Distinct(fmt.Sprintf("close-during-safe-batches|%s", r.CrashedAt))
			rs = append(rs, r)
		}
		report(c, rs)
	}
	// a failed merge over merge outputs the persister has not recorded, a purge, a clean
	// Close: the reopened index holds everything (sx.DirectedFailedMerge, shared with C12)
	{
		var rs []*runResult
		for k := 0; k < c.Pick(2, 6); k++ {
			fres, err := sx.DirectedFailedMerge(c.TempDir("c03f"), c.Seed*3+int64(k))
			if err != nil {
				return err
			}
			r := &runResult{Spec: runSpec{WL: sx.Workload{Name: "directed-failed-merge"}, Variant: "none"}, CrashedAt: "close-after-failed-merge"}
			r.Records = sx.CrashRecords(fres.Events)
			if fres.AtPurge != nil {
				r.Records = append(r.Records, fres.AtPurge)
			}
			if fres.Reopen != nil {
				r.Records = append(r.Records, fres.Reopen)
			}
			c.Eval(1)
			c.Distinct("directed-failed-merge")
			rs = append(rs, r)
		}
		report(c, rs)
	}
	c.Logf("%d crash runs", len(specs))
	results := make([]*runResult, len(specs))
	var wg sync.WaitGroup
	sem := make(chan struct{}, 12)
	var mu sync.Mutex
	var firstErr error
	for i := range specs {
		wg.Add(1)
		sem <- struct{}{}
		go func(i int) {
			defer wg.Done()
			defer func() { <-sem }()
			r, err := execute(c, specs[i])
			c.Eval(1)
			mu.Lock()
			defer mu.Unlock()
			if err != nil {
				if firstErr == nil {
					firstErr = err
				}
				return
			}
			results[i] = r
		}(i)
	}
	wg.Wait()
	if firstErr != nil {
		return firstErr
	}
	report(c, results)
	points := map[string]int{}
	for _, r := range results {
		if r != nil && r.Killed && r.CrashedAt != "" {
			points[r.CrashedAt]++
		}
	}
	c.Extra("kills_per_hook_point", points)
	c.SetExhaustive(false)
	return nil
}

// report feeds the runs to TLC (concatenated) and turns rejections into verdicts.
func report(c *core.Ctx, results []*runResult) {
	live := []*runResult{}
	for _, r := range results {
		if r != nil && len(r.Records) > 0 {
			live = append(live, r)
		}
	}
	sampled := false
	for len(live) > 0 {
		var recs []any
		owner := []int{}
		for i, r := range live {
			for _, x := range r.Records {
				recs = append(recs, x)
				owner = append(owner, i)
			}
		}
		tf, err := c.ValidateTrace("TraceCrash", "TraceCrash.cfg", recs, core.Timeout(10*time.Minute))
		if err != nil {
			c.Inconclusive(err.Error())
			return
		}
		if tf == nil {
			for _, r := range live {
				c.Traces(1)
				nsub := 0
				for _, x := range r.Records {
					if x.(map[string]any)["ev"] == "Submit" {
						nsub++
					}
				}
				if r.Killed && nsub > 0 {
					c.Distinct(fmt.Sprintf("%s|%s|%d|%s|%v", r.Spec.WL.Name, r.CrashedAt, r.Spec.CrashAt, r.Spec.Variant, r.Spec.KillAfter))
				}
				if !sampled && r.Killed && nsub > 1 {
					sampled = true
					c.Sample(map[string]any{"workload": r.Spec.WL.Name, "killed_at_hook": r.CrashedAt, "hit": r.Spec.CrashAt,
						"variant": r.Spec.Variant, "unnamed_files": r.Unnamed, "bolt": r.Bolt, "trace": r.Records})
				}
			}
			return
		}
		idx := tf.Line - 2 // invariants are evaluated after consuming record l-1 (1-based)
		if tf.Invariant == "" {
			idx = tf.Line - 1 // the record that could not be consumed
		}
		if idx < 0 || idx >= len(owner) {
			c.Inconclusive(fmt.Sprintf("TraceCrash rejected without a usable position: %s", tf.Text))
			return
		}
		bad := live[owner[idx]]
		inv := tf.Invariant
		if inv == "" {
			inv = "TraceNotAccepted"
		}
		where := bad.CrashedAt
		if where == "" {
			if bad.Killed {
				where = "wallclock"
			} else {
				where = "clean-close"
			}
		}
		sig := fmt.Sprintf("c03/%s@%s/%s", inv, where, bad.Spec.Variant)
		c.Violation(sig, fmt.Sprintf("%s violated after kill at %s (hit %d, workload %s, variant %s) %s", inv, where, bad.Spec.CrashAt, bad.Spec.WL.Name, bad.Spec.Variant, bad.Err), bad)
		live = append(live[:owner[idx]], live[owner[idx]+1:]...)
	}
}

func replay(c *core.Ctx, path string) error {
	b, err := os.ReadFile(path)
	if err != nil {
		return err
	}
	var art struct {
		Replay runResult `json:"replay"`
	}
	if err := json.Unmarshal(b, &art); err != nil {
		return err
	}
	for i := 0; i < 5; i++ {
		r, err := execute(c, art.Replay.Spec)
		if err != nil {
			return err
		}
		c.Eval(1)
		report(c, []*runResult{r})
	}
	c.Distinct("replay-a")
	c.Distinct("replay-b")
	c.Sample(art.Replay.Spec)
	return nil
}
