// Package c09: "Searching an alias over shards equals searching one index with
// all documents".
//
//   - the model decides: spec/Alias.tla (MultiSearch as separate actions: child
//     request rewrite, child searches in any arrival order, merge, re-sort, page
//     slice, facet fix-up, search-before reversal; nested aliases as a tree) is
//     model-checked by TLC for every assignment of the documents to the leaves;
//   - Engine A: every case TLC enumerates (corpus, tree, assignment, request) is
//     built as real in-memory indexes + bleve.NewIndexAlias (+ nested aliases) +
//     one index holding the whole corpus; hits (order, sort values), Total, stored
//     fields and facets of the alias are compared with the single index and with
//     the value the spec computed;
//   - Engine B: seeded larger partitions and random trees; From/Size page chains
//     and SearchAfter / SearchBefore chains driven by the real sort keys; every
//     real alias result is judged by TLC (spec/trace/JudgeAlias.tla).
package c09

import (
	"encoding/json"
	"fmt"
	"github.com/blevesearch/bleve/v2/numeric"
	"os"
	"path/filepath"
	"reflect"
	"sort"
	"strconv"
	"strings"
	"sync"
	"time"

	bleve "github.com/blevesearch/bleve/v2"
	"github.com/blevesearch/bleve/v2/index/scorch"
	"github.com/blevesearch/bleve/v2/mapping"
	"github.com/blevesearch/bleve/v2/search"

	"verif/harness/internal/core"
	"verif/harness/internal/tlaval"
	"verif/harness/internal/tlc"
)

func init() {
	core.Register(&core.Check{Prop: "C09", Level: "model_checking", Run: run, Replay: replay})
}

// ---------------------------------------------------------------- model terms

const (
	low  = -1      // AliasOps!LOW  = search.LowTerm
	high = 1000000 // AliasOps!HIGH = search.HighTerm
)

type SortComp struct {
	By     string `json:"by"` // key | id
	Desc   bool   `json:"desc"`
	MFirst bool   `json:"mfirst"`
}

type Req struct {
	From   int        `json:"from"`
	Size   int        `json:"size"`
	Sort   []SortComp `json:"sort"`
	Mode   string     `json:"mode"` // page | after | before
	Cursor []int      `json:"cursor"`
	// NumKey: the key component sorts by the numeric twin "n" of the key field (typed as
	// number); same order, but sort values and cursors travel in the numeric encoding
	NumKey bool `json:"numkey,omitempty"`
}

type Hit struct {
	ID int   `json:"id"`
	SV []int `json:"sv"`
}

type Node struct {
	Kind  string  `json:"kind"` // leaf | alias
	Shard int     `json:"shard,omitempty"`
	Kids  []*Node `json:"kids,omitempty"`
}

type Entry struct {
	K int `json:"k"`
	C int `json:"c"`
}
type FR struct {
	Total   int     `json:"total"`
	Missing int     `json:"missing"`
	Other   int     `json:"other"`
	List    []Entry `json:"list"`
}

type Range struct {
	ID    int  `json:"id"`
	HasLo bool `json:"hasLo"`
	Lo    int  `json:"lo"`
	HasHi bool `json:"hasHi"`
	Hi    int  `json:"hi"`
}

// Alias.tla NumRanges
var numRanges = []Range{{1, false, 0, true, 2}, {2, true, 2, false, 0}, {3, true, 1, true, 3}}

// Corpus: document n (1-based) has sort key Key[n-1] (0 = missing), lives in shard Shard[n-1].
type Corpus struct {
	Key   []int `json:"key"`
	M     []int `json:"m"`
	Shard []int `json:"shard"`
}

func (c Corpus) matched(n int) bool {
	for _, x := range c.M {
		if x == n {
			return true
		}
	}
	return false
}

func (c Corpus) width() int {
	if len(c.Key) > 9 {
		return 2
	}
	return 1
}

func docID(w, n int) string { return fmt.Sprintf("d%0*d", w, n) }

// ---------------------------------------------------------------- real world

func buildMapping() mapping.IndexMapping {
	m := bleve.NewIndexMapping()
	dm := bleve.NewDocumentStaticMapping()
	kw := func(store bool) *mapping.FieldMapping {
		f := bleve.NewTextFieldMapping()
		f.Analyzer = "keyword"
		f.Store = store
		f.IncludeInAll = false
		f.IncludeTermVectors = false
		return f
	}
	dm.AddFieldMappingsAt("k", kw(true))
	dm.AddFieldMappingsAt("m", kw(false))
	nf := bleve.NewNumericFieldMapping()
	nf.Store = true
	nf.IncludeInAll = false
	dm.AddFieldMappingsAt("n", nf)
	body := bleve.NewTextFieldMapping()
	body.Store = true
	body.IncludeInAll = false
	dm.AddFieldMappingsAt("body", body)
	m.DefaultMapping = dm
	return m
}

func newIndex(scorchEngine bool) (bleve.Index, error) {
	if scorchEngine {
		return bleve.NewUsing("", buildMapping(), scorch.Name, scorch.Name, nil)
	}
	return bleve.NewMemOnly(buildMapping())
}

func (c Corpus) source(n int) map[string]any {
	b := map[string]any{"body": fmt.Sprintf("payload of document %d", n), "m": "0"}
	if c.matched(n) {
		b["m"] = "1"
	}
	if k := c.Key[n-1]; k != 0 {
		b["k"] = fmt.Sprintf("k%d", k)
		b["n"] = float64(k)
	}
	return b
}

// stored fields a hit of document n must carry (Fields = ["*"])
func (c Corpus) stored(n int) map[string]any {
	b := map[string]any{"body": fmt.Sprintf("payload of document %d", n)}
	if k := c.Key[n-1]; k != 0 {
		b["k"] = fmt.Sprintf("k%d", k)
		b["n"] = float64(k)
	}
	return b
}

// world: the shards, the alias tree over them, and the single index.
type world struct {
	c      Corpus
	shards []bleve.Index
	alias  bleve.Index
	single bleve.Index
	desc   string
}

func (w *world) close() {
	for _, s := range w.shards {
		if s != nil {
			s.Close()
		}
	}
	if w.single != nil {
		w.single.Close()
	}
}

func maxShard(n *Node) int {
	if n.Kind == "leaf" {
		return n.Shard
	}
	m := 0
	for _, k := range n.Kids {
		if x := maxShard(k); x > m {
			m = x
		}
	}
	return m
}

func buildAlias(n *Node, shards []bleve.Index) bleve.Index {
	if n.Kind == "leaf" {
		return shards[n.Shard-1]
	}
	var kids []bleve.Index
	for _, k := range n.Kids {
		kids = append(kids, buildAlias(k, shards))
	}
	al := bleve.NewIndexAlias(kids...)
	// membership maintenance that leaves the covered corpus unchanged: the LAST nested
	// alias (if it is not the only member) is swapped for a twin over the same members
	// (what an operator does after rebuilding one shard group); the alias must then
	// still cover exactly the same documents
	if len(kids) >= 2 {
		last := len(kids) - 1
		if n.Kids[last].Kind != "leaf" {
			var inner []bleve.Index
			for _, k := range n.Kids[last].Kids {
				inner = append(inner, buildAlias(k, shards))
			}
			twin := bleve.NewIndexAlias(inner...)
			al.Swap([]bleve.Index{twin}, []bleve.Index{kids[last]})
		}
	}
	return al
}

// engines: 0 all scorch, 1 all upsidedown, 2 mixed shards / scorch single, 3 mixed / upsidedown single
func buildWorld(c Corpus, root *Node, engines int) (*world, error) {
	w := &world{c: c, desc: fmt.Sprintf("engines=%d", engines)}
	ns := maxShard(root)
	for _, s := range c.Shard {
		if s > ns {
			return nil, fmt.Errorf("document assigned to shard %d outside the tree", s)
		}
	}
	for s := 1; s <= ns; s++ {
		sc := engines == 0 || (engines >= 2 && s%2 == 1)
		idx, err := newIndex(sc)
		if err != nil {
			w.close()
			return nil, err
		}
		w.shards = append(w.shards, idx)
	}
	var err error
	if w.single, err = newIndex(engines == 0 || engines == 2); err != nil {
		w.close()
		return nil, err
	}
	wd := c.width()
	batches := make([]*bleve.Batch, ns)
	for i := range batches {
		batches[i] = w.shards[i].NewBatch()
	}
	sb := w.single.NewBatch()
	for n := 1; n <= len(c.Key); n++ {
		if err = batches[c.Shard[n-1]-1].Index(docID(wd, n), c.source(n)); err != nil {
			w.close()
			return nil, err
		}
		if err = sb.Index(docID(wd, n), c.source(n)); err != nil {
			w.close()
			return nil, err
		}
	}
	for i, b := range batches {
		if b.Size() == 0 {
			continue // an empty shard stays a freshly created index
		}
		if err = w.shards[i].Batch(b); err != nil {
			w.close()
			return nil, err
		}
	}
	if err = w.single.Batch(sb); err != nil {
		w.close()
		return nil, err
	}
	w.alias = buildAlias(root, w.shards)
	return w, nil
}

func keyTerm(v int) string {
	switch v {
	case high:
		return search.HighTerm
	case low:
		return search.LowTerm
	}
	return fmt.Sprintf("k%d", v)
}

func (r Req) sortOrder() search.SortOrder {
	var so search.SortOrder
	for _, c := range r.Sort {
		if c.By == "id" {
			so = append(so, &search.SortDocID{Desc: c.Desc})
			continue
		}
		f := &search.SortField{Field: "k", Desc: c.Desc}
		if c.MFirst {
			f.Missing = search.SortFieldMissingFirst
			f.Type = search.SortFieldAsString
		}
		if r.NumKey {
			f.Field = "n"
			f.Type = search.SortFieldAsNumber
		}
		so = append(so, f)
	}
	return so
}

func (r Req) cursorStrings(w int) []string {
	out := make([]string, len(r.Cursor))
	for i, c := range r.Sort {
		if c.By == "id" {
			out[i] = docID(w, r.Cursor[i])
		} else if r.NumKey {
			out[i] = strconv.Itoa(r.Cursor[i])
		} else {
			out[i] = keyTerm(r.Cursor[i])
		}
	}
	return out
}

// numKeyOK: a numeric cursor can only name a number (a missing key has no numeric form)
func numKeyOK(so []SortComp, cursor []int) bool {
	for i, c := range so {
		if c.By != "id" && i < len(cursor) && (cursor[i] == high || cursor[i] == low) {
			return false
		}
	}
	return true
}

func decodeSort(r Req, vals []string) ([]int, error) {
	if len(vals) != len(r.Sort) {
		return nil, fmt.Errorf("hit carries %d sort values for %d sort components", len(vals), len(r.Sort))
	}
	out := make([]int, len(vals))
	for i, c := range r.Sort {
		var n int
		switch {
		case c.By == "id":
			if _, err := fmt.Sscanf(vals[i], "d%d", &n); err != nil {
				return nil, fmt.Errorf("sort value %q is not a document id", vals[i])
			}
		case vals[i] == search.HighTerm:
			n = high
		case vals[i] == search.LowTerm:
			n = low
		case r.NumKey:
			i64, err := numeric.PrefixCoded(vals[i]).Int64()
			if err != nil {
				return nil, fmt.Errorf("sort value %q is not a prefix-coded number", vals[i])
			}
			n = int(numeric.Int64ToFloat64(i64))
		default:
			if _, err := fmt.Sscanf(vals[i], "k%d", &n); err != nil {
				return nil, fmt.Errorf("sort value %q is not a key term", vals[i])
			}
		}
		out[i] = n
	}
	return out, nil
}

func facetName(kind string, s int) string { return fmt.Sprintf("%s/%d", kind, s) }

func (r Req) request(width int, fs []int) *bleve.SearchRequest {
	q := bleve.NewTermQuery("1")
	q.SetField("m")
	req := bleve.NewSearchRequestOptions(q, r.Size, r.From, false)
	req.SortByCustom(r.sortOrder())
	req.Fields = []string{"*"}
	switch r.Mode {
	case "after":
		req.SetSearchAfter(r.cursorStrings(width))
	case "before":
		req.SetSearchBefore(r.cursorStrings(width))
	}
	for _, s := range fs {
		req.AddFacet(facetName("ft", s), bleve.NewFacetRequest("k", s))
		nf := bleve.NewFacetRequest("n", s)
		for _, rg := range numRanges {
			var lo, hi *float64
			if rg.HasLo {
				v := float64(rg.Lo)
				lo = &v
			}
			if rg.HasHi {
				v := float64(rg.Hi)
				hi = &v
			}
			nf.AddNumericRange(fmt.Sprintf("r%d", rg.ID), lo, hi)
		}
		req.AddFacet(facetName("fn", s), nf)
	}
	return req
}

// Observed: what one real search returned, in model terms.
type Observed struct {
	Hits   []Hit            `json:"hits"`
	Total  int              `json:"total"`
	Fields []map[string]any `json:"fields,omitempty"`
	Facets map[string]FR    `json:"facets,omitempty"`
	RawIDs []string         `json:"-"`
	Last   []string         `json:"-"` // raw sort key of the last hit
	First  []string         `json:"-"`
}

func observe(idx bleve.Index, r Req, width int, fs []int) (*Observed, error) {
	req := r.request(width, fs)
	res, err := idx.Search(req)
	if err != nil {
		return nil, err
	}
	// a request object may be reused (here: searched twice); the second answer
	// is the one that is judged - the per-member copies an alias makes of a used
	// request once shared the sort's scratch buffers (fixed in /repo 91a8e47)
	res, err = idx.Search(req)
	if err != nil {
		return nil, err
	}
	if res.Status != nil && (res.Status.Failed > 0 || len(res.Status.Errors) > 0) {
		return nil, fmt.Errorf("search status reports failures: %+v", res.Status)
	}
	o := &Observed{Hits: []Hit{}, Total: int(res.Total), Facets: map[string]FR{}}
	for i, h := range res.Hits {
		var n int
		if _, err := fmt.Sscanf(h.ID, "d%d", &n); err != nil {
			return nil, fmt.Errorf("hit id %q", h.ID)
		}
		sv, err := decodeSort(r, h.Sort)
		if err != nil {
			return nil, err
		}
		o.Hits = append(o.Hits, Hit{n, sv})
		o.Fields = append(o.Fields, h.Fields)
		if i == 0 {
			o.First = append([]string{}, h.Sort...)
		}
		o.Last = append([]string{}, h.Sort...)
	}
	for name, f := range res.Facets {
		fr := FR{Total: f.Total, Missing: f.Missing, Other: f.Other, List: []Entry{}}
		var id int
		if f.Terms != nil {
			for _, t := range f.Terms.Terms() {
				if _, err := fmt.Sscanf(t.Term, "k%d", &id); err != nil {
					return nil, fmt.Errorf("facet term %q", t.Term)
				}
				fr.List = append(fr.List, Entry{id, t.Count})
			}
		}
		for _, nr := range f.NumericRanges {
			if _, err := fmt.Sscanf(nr.Name, "r%d", &id); err != nil {
				return nil, fmt.Errorf("facet range %q", nr.Name)
			}
			fr.List = append(fr.List, Entry{id, nr.Count})
		}
		o.Facets[name] = fr
	}
	return o, nil
}

func sameHits(a, b []Hit) bool { return reflect.DeepEqual(a, b) }

func sameFR(a, b FR) bool { return reflect.DeepEqual(a, b) }

// Failure is the replay artefact.
type Failure struct {
	Corpus  Corpus    `json:"corpus"`
	Root    *Node     `json:"root"`
	Engines int       `json:"engines"`
	Req     Req       `json:"req"`
	FS      []int     `json:"facet_sizes"`
	Clause  string    `json:"clause"`
	Alias   *Observed `json:"alias"`
	Single  *Observed `json:"single"`
	Model   any       `json:"model,omitempty"`
}

func signature(r Req, clause string) string {
	if clause == "hits" {
		if r.Size == 0 && r.From > 0 {
			return "alias-size0-from-positive-returns-hits"
		}
		return "alias-hits-differ-" + r.Mode
	}
	return "alias-" + clause + "-differs"
}

// compare checks the property on one pair of real results (alias vs single):
// hits in order with their sort values, Total, stored fields, facets whose size
// covers all buckets. Returns the failing clause or "".
func compare(c Corpus, r Req, fs []int, a, s *Observed) string {
	if !sameHits(a.Hits, s.Hits) {
		return "hits"
	}
	if a.Total != s.Total {
		return "total"
	}
	for i := range a.Hits {
		want := c.stored(a.Hits[i].ID)
		if !reflect.DeepEqual(a.Fields[i], s.Fields[i]) || !reflect.DeepEqual(a.Fields[i], want) {
			return "stored-fields"
		}
	}
	for _, sz := range fs {
		for _, kind := range []string{"ft", "fn"} {
			sf, ok1 := s.Facets[facetName(kind, sz)]
			af, ok2 := a.Facets[facetName(kind, sz)]
			if !ok1 || !ok2 {
				return "facets"
			}
			// the size covers all buckets iff the single index put nothing into Other
			// and lists no more than size entries -- then the alias must agree exactly
			if sf.Other == 0 && !sameFR(af, sf) {
				return "facets"
			}
		}
	}
	return ""
}

// ---------------------------------------------------------------- Engine A

type caseA struct {
	Req  Req
	Want []Hit
	Tot  int
}

type group struct {
	corpus Corpus
	root   *Node
	cases  []caseA
}

func parseNode(v any) *Node {
	n := &Node{Kind: tlaval.Str(tlaval.Field(v, "kind"))}
	if n.Kind == "leaf" {
		n.Shard = tlaval.Int(tlaval.Field(v, "shard"))
		return n
	}
	for _, k := range tlaval.List(tlaval.Field(v, "kids")) {
		n.Kids = append(n.Kids, parseNode(k))
	}
	return n
}

func ints(v any) []int {
	out := []int{}
	for _, x := range tlaval.List(v) {
		out = append(out, tlaval.Int(x))
	}
	return out
}

func parseReq(v any) Req {
	r := Req{From: tlaval.Int(tlaval.Field(v, "from")), Size: tlaval.Int(tlaval.Field(v, "size")),
		Mode: tlaval.Str(tlaval.Field(v, "mode")), Cursor: ints(tlaval.Field(v, "cursor"))}
	for _, c := range tlaval.List(tlaval.Field(v, "sort")) {
		r.Sort = append(r.Sort, SortComp{By: tlaval.Str(tlaval.Field(c, "by")), Desc: tlaval.Bool(tlaval.Field(c, "desc")), MFirst: tlaval.Bool(tlaval.Field(c, "mfirst"))})
	}
	return r
}

func parseHits(v any) []Hit {
	out := []Hit{}
	for _, h := range tlaval.List(v) {
		out = append(out, Hit{tlaval.Int(tlaval.Field(h, "id")), ints(tlaval.Field(h, "sv"))})
	}
	return out
}

func parseFR(v any) FR {
	fr := FR{Total: tlaval.Int(tlaval.Field(v, "total")), Missing: tlaval.Int(tlaval.Field(v, "missing")), Other: tlaval.Int(tlaval.Field(v, "other")), List: []Entry{}}
	for _, e := range tlaval.List(tlaval.Field(v, "list")) {
		fr.List = append(fr.List, Entry{tlaval.Int(tlaval.Field(e, "k")), tlaval.Int(tlaval.Field(e, "c"))})
	}
	return fr
}

func parseCorpus(st tlaval.State) Corpus {
	c := Corpus{Key: ints(tlaval.Field(st["corpus"], "key")), M: ints(tlaval.Field(st["corpus"], "m")), Shard: ints(st["assign"])}
	sort.Ints(c.M)
	return c
}

func corpusKey(c Corpus) string { return core.Canon([]any{c.Key, c.M}) }

var facetSizes = []int{1, 2, 4} // Alias.tla FS

// facetExpectations: per corpus, the single-index facets the spec computes.
func facetExpectations(c *core.Ctx, cfg string) (map[string]map[string]FR, error) {
	out := map[string]map[string]FR{}
	res, err := tlc.DumpStates(c.TLCOpts("Alias", cfg, core.Workers(1), core.Timeout(10*time.Minute)), func(st tlaval.State) error {
		if tlaval.Str(st["pc"]) != "done" {
			return nil
		}
		cp := parseCorpus(st)
		m := map[string]FR{}
		for s, fr := range tlaval.Map(tlaval.Field(st["want"], "ft")) {
			m["ft/"+s] = parseFR(fr)
		}
		for s, fr := range tlaval.Map(tlaval.Field(st["want"], "fn")) {
			m["fn/"+s] = parseFR(fr)
		}
		out[corpusKey(cp)] = m
		return nil
	})
	c.Account("Alias", cfg, "enumerate", res)
	if err != nil {
		return nil, err
	}
	if res == nil || !res.OK {
		return nil, fmt.Errorf("TLC enumeration %s failed", cfg)
	}
	return out, nil
}

func reportPair(c *core.Ctx, w *world, root *Node, engines int, r Req, fs []int, clause string, a, s *Observed, model any) {
	f := &Failure{Corpus: w.c, Root: root, Engines: engines, Req: r, FS: fs, Clause: clause, Alias: a, Single: s, Model: model}
	what := fmt.Sprintf("alias and single index disagree on %s: request %s over corpus %s tree %s: alias %s, single %s",
		clause, core.Canon(r), core.Canon(w.c), core.Canon(root), core.Canon(a), core.Canon(s))
	c.Violation(signature(r, clause), what, f)
}

func runGroup(c *core.Ctx, g *group, gi int, fexp map[string]map[string]FR) (int, error) {
	engines := gi % 4
	w, err := buildWorld(g.corpus, g.root, engines)
	if err != nil {
		return 0, err
	}
	defer w.close()
	width := g.corpus.width()
	evals := 0
	for ci, cs := range g.cases {
		// facets ride along on a rotating subset of the requests (they do not depend on the page)
		var fs []int
		if ci%8 == gi%8 {
			fs = facetSizes
		}
		a, err := observe(w.alias, cs.Req, width, fs)
		if err != nil {
			return evals, fmt.Errorf("alias search %s: %v", core.Canon(cs.Req), err)
		}
		s, err := observe(w.single, cs.Req, width, fs)
		if err != nil {
			return evals, fmt.Errorf("single search %s: %v", core.Canon(cs.Req), err)
		}
		evals += 2
		if clause := compare(g.corpus, cs.Req, fs, a, s); clause != "" {
			reportPair(c, w, g.root, engines, cs.Req, fs, clause, a, s, cs.Want)
			continue
		}
		// the pair agrees; it must also be what the specification computed
		if !sameHits(a.Hits, cs.Want) || a.Total != cs.Tot {
			c.Drift(fmt.Sprintf("alias and single index agree (%s, total %d) but the specification expects %s, total %d for %s over %s",
				core.Canon(a.Hits), a.Total, core.Canon(cs.Want), cs.Tot, core.Canon(cs.Req), core.Canon(g.corpus)))
		}
		if fs != nil {
			exp, ok := fexp[corpusKey(g.corpus)]
			if !ok {
				return evals, fmt.Errorf("no facet expectation for corpus %s", corpusKey(g.corpus))
			}
			nb := len(exp[facetName("ft", 4)].List)
			nr := len(exp[facetName("fn", 4)].List)
			for _, sz := range fs {
				if nb <= sz && !sameFR(a.Facets[facetName("ft", sz)], exp[facetName("ft", sz)]) {
					reportPair(c, w, g.root, engines, cs.Req, fs, "facets", a, s, exp)
				}
				if nr <= sz && !sameFR(a.Facets[facetName("fn", sz)], exp[facetName("fn", sz)]) {
					reportPair(c, w, g.root, engines, cs.Req, fs, "facets", a, s, exp)
				}
			}
		}
	}
	return evals, nil
}

func engineA(c *core.Ctx) error {
	cfg, fcfg := "Alias_enum_quick.cfg", "Alias_enum_facets.cfg"
	if c.Thorough() {
		cfg, fcfg = "Alias_enum_thorough.cfg", "Alias_enum_facets5.cfg"
	}
	fexp, err := facetExpectations(c, fcfg)
	if err != nil {
		return err
	}
	groups := map[string]*group{}
	var order []string
	ncases := 0
	res, err := tlc.DumpStates(c.TLCOpts("Alias", cfg, core.Workers(4), core.Timeout(25*time.Minute)), func(st tlaval.State) error {
		if tlaval.Str(st["pc"]) != "done" {
			return nil
		}
		cp := parseCorpus(st)
		root := parseNode(st["root"])
		key := core.Canon([]any{cp, root})
		g, ok := groups[key]
		if !ok {
			g = &group{corpus: cp, root: root}
			groups[key] = g
			order = append(order, key)
		}
		g.cases = append(g.cases, caseA{Req: parseReq(st["req"]), Want: parseHits(tlaval.Field(st["want"], "hits")), Tot: tlaval.Int(tlaval.Field(st["want"], "total"))})
		ncases++
		return nil
	})
	c.Account("Alias", cfg, "enumerate", res)
	if err != nil {
		return fmt.Errorf("enumerating cases: %v", err)
	}
	if res == nil || !res.OK {
		return fmt.Errorf("TLC enumeration %s failed", cfg)
	}
	if ncases == 0 {
		return fmt.Errorf("TLC enumerated no cases")
	}
	c.Logf("engine A: %d cases in %d (corpus, tree, assignment) groups enumerated by TLC", ncases, len(groups))
	type job struct {
		gi int
		g  *group
	}
	jobs := make(chan job)
	var wg sync.WaitGroup
	var mu sync.Mutex
	var firstErr error
	for wk := 0; wk < 8; wk++ {
		wg.Add(1)
		go func() {
			defer wg.Done()
			for j := range jobs {
				n, err := runGroup(c, j.g, j.gi, fexp)
				c.Eval(n)
				if err != nil {
					mu.Lock()
					if firstErr == nil {
						firstErr = err
					}
					mu.Unlock()
				}
			}
		}()
	}
	for gi, k := range order {
		g := groups[k]
		if len(g.corpus.M) > 0 {
			for _, cs := range g.cases {
				c.Distinct("A:" + k + core.Canon(cs.Req))
			}
		}
		if gi%97 == 5 && len(g.cases) > 3 {
			cs := g.cases[len(g.cases)/2]
			c.Sample(map[string]any{"engine": "A", "corpus": g.corpus, "root": g.root, "req": cs.Req, "want_hits": cs.Want, "want_total": cs.Tot})
		}
		jobs <- job{gi, g}
	}
	close(jobs)
	wg.Wait()
	c.Extra("engineA_cases", ncases)
	c.Extra("engineA_groups", len(groups))
	return firstErr
}

// ---------------------------------------------------------------- Engine B

type recordB struct {
	Key    []int   `json:"key"`
	M      []int   `json:"m"`
	Shard  []int   `json:"shard"`
	Root   *Node   `json:"root"`
	Req    Req     `json:"req"`
	FS     []int   `json:"fs"`
	Ranges []Range `json:"ranges"`
	Got    gotB    `json:"got"`
}
type sizedFR struct {
	S  int `json:"s"`
	FR FR  `json:"fr"`
}
type gotB struct {
	Hits  []Hit     `json:"hits"`
	Total int       `json:"total"`
	FT    []sizedFR `json:"ft"`
	FN    []sizedFR `json:"fn"`
}

func dummyRecord() recordB {
	return recordB{Key: []int{}, M: []int{}, Shard: []int{}, Root: &Node{Kind: "leaf", Shard: 1},
		Req: Req{Size: 1, Sort: []SortComp{{"id", false, false}}, Mode: "page", Cursor: []int{}},
		FS:  []int{}, Ranges: []Range{},
		Got: gotB{Hits: []Hit{}, FT: []sizedFR{}, FN: []sizedFR{}}}
}

func randomTree(c *core.Ctx, leaves []int) *Node {
	// random nesting over the given leaves, single-member aliases included
	if len(leaves) == 1 {
		n := &Node{Kind: "leaf", Shard: leaves[0]}
		if c.Rand.Intn(4) == 0 {
			return &Node{Kind: "alias", Kids: []*Node{n}}
		}
		return n
	}
	nk := 2 + c.Rand.Intn(2)
	if nk > len(leaves) {
		nk = len(leaves)
	}
	if c.Rand.Intn(3) == 0 {
		nk = len(leaves) // flat
	}
	cuts := map[int]bool{}
	for len(cuts) < nk-1 {
		cuts[1+c.Rand.Intn(len(leaves)-1)] = true
	}
	var kids []*Node
	start := 0
	for i := 1; i <= len(leaves); i++ {
		if cuts[i] || i == len(leaves) {
			kids = append(kids, randomTree(c, leaves[start:i]))
			start = i
		}
	}
	return &Node{Kind: "alias", Kids: kids}
}

var sortsB = [][]SortComp{
	{{"key", false, false}, {"id", false, false}},
	{{"key", true, false}, {"id", false, false}},
	{{"key", false, true}, {"id", true, false}},
	{{"key", true, true}, {"id", true, false}},
	{{"id", true, false}},
}

func engineB(c *core.Ctx) error {
	nWorlds := c.Pick(4, 24)
	r := c.Rand
	var records []any
	var fails []Failure
	fsB := []int{1, 3, 12}
	for wi := 0; wi < nWorlds; wi++ {
		nd := 8 + r.Intn(c.Pick(14, 30))
		ns := 2 + r.Intn(4)
		cp := Corpus{Key: make([]int, nd), Shard: make([]int, nd), M: []int{}}
		skew := r.Intn(3) // 0 uniform, 1 skewed to shard 1, 2 leaves one shard empty
		for n := 1; n <= nd; n++ {
			cp.Key[n-1] = r.Intn(7) // 0 = missing
			if r.Intn(6) != 0 {
				cp.M = append(cp.M, n)
			}
			switch skew {
			case 1:
				if r.Intn(4) != 0 {
					cp.Shard[n-1] = 1
				} else {
					cp.Shard[n-1] = 1 + r.Intn(ns)
				}
			case 2:
				cp.Shard[n-1] = 1 + r.Intn(ns-1)
			default:
				cp.Shard[n-1] = 1 + r.Intn(ns)
			}
		}
		leaves := r.Perm(ns)
		for i := range leaves {
			leaves[i]++
		}
		root := randomTree(c, leaves)
		if root.Kind == "leaf" {
			root = &Node{Kind: "alias", Kids: []*Node{root}}
		}
		engines := (wi + int(c.Seed)) % 4
		w, err := buildWorld(cp, root, engines)
		if err != nil {
			return err
		}
		width := cp.width()
		step := func(rq Req, fs []int) (*Observed, error) {
			a, err := observe(w.alias, rq, width, fs)
			if err != nil {
				return nil, fmt.Errorf("alias search %s: %v", core.Canon(rq), err)
			}
			s, err := observe(w.single, rq, width, fs)
			if err != nil {
				return nil, fmt.Errorf("single search %s: %v", core.Canon(rq), err)
			}
			c.Eval(2)
			if clause := compare(cp, rq, fs, a, s); clause != "" {
				reportPair(c, w, root, engines, rq, fs, clause, a, s, nil)
			}
			rec := recordB{Key: cp.Key, M: cp.M, Shard: cp.Shard, Root: root, Req: rq, FS: append([]int{}, fs...), Ranges: numRanges,
				Got: gotB{Hits: a.Hits, Total: a.Total, FT: []sizedFR{}, FN: []sizedFR{}}}
			if rec.Req.Cursor == nil {
				rec.Req.Cursor = []int{}
			}
			for _, sz := range fs {
				rec.Got.FT = append(rec.Got.FT, sizedFR{sz, a.Facets[facetName("ft", sz)]})
				rec.Got.FN = append(rec.Got.FN, sizedFR{sz, a.Facets[facetName("fn", sz)]})
			}
			records = append(records, rec)
			fails = append(fails, Failure{Corpus: cp, Root: root, Engines: engines, Req: rq, FS: fs, Alias: a, Single: s})
			if len(cp.M) > 0 {
				c.Distinct(fmt.Sprintf("B:%d:%s", wi, core.Canon(rq)))
			}
			return a, nil
		}
		for si, so := range sortsB {
			if c.Quick() && (si+wi)%5 >= 3 {
				continue
			}
			size := []int{1, 2, 3, 5, 8}[r.Intn(5)]
			numKey := (wi+si)%2 == 1
			// (1) From/Size pages over the whole result
			for from := 0; from <= len(cp.M); from += size {
				fs := []int(nil)
				if from == 0 {
					fs = fsB
				}
				if _, err := step(Req{From: from, Size: size, Sort: so, Mode: "page", NumKey: numKey}, fs); err != nil {
					w.close()
					return err
				}
			}
			// (2) SearchAfter chain from the start, then SearchBefore chain back from the end
			var lastCursor []int
			cur, err := step(Req{From: 0, Size: size, Sort: so, Mode: "page", NumKey: numKey}, nil)
			if err != nil {
				w.close()
				return err
			}
			for guard := 0; len(cur.Hits) > 0 && guard < 100; guard++ {
				lastCursor = cur.Hits[len(cur.Hits)-1].SV
				cur, err = step(Req{From: 0, Size: size, Sort: so, Mode: "after", Cursor: lastCursor, NumKey: numKey && numKeyOK(so, lastCursor)}, nil)
				if err != nil {
					w.close()
					return err
				}
			}
			if lastCursor != nil {
				back := lastCursor
				for guard := 0; guard < 100; guard++ {
					cur, err = step(Req{From: 0, Size: size, Sort: so, Mode: "before", Cursor: back, NumKey: numKey && numKeyOK(so, back)}, nil)
					if err != nil {
						w.close()
						return err
					}
					if len(cur.Hits) == 0 {
						break
					}
					back = cur.Hits[0].SV
				}
			}
		}
		w.close()
	}
	if len(records) == 0 {
		return fmt.Errorf("engine B produced no records")
	}
	c.Sample(map[string]any{"engine": "B", "record": records[len(records)/3]})
	if p := os.Getenv("VERIF_C09_DUMP_RECORDS"); p != "" {
		_ = core.WriteNDJSON(p, records)
	}
	withDesign := core.TLCOpt(func(o *tlc.Opts) {
		o.SpecDir = c.SpecDir
		o.Config = filepath.Join("trace", "JudgeAlias.cfg")
	})
	nparts := c.Pick(3, 6)
	chunk := (len(records) + nparts - 1) / nparts
	var wg sync.WaitGroup
	var mu sync.Mutex
	var jerr error
	sem := make(chan struct{}, 3)
	parts := 0
	for lo := 0; lo < len(records); lo += chunk {
		hi := lo + chunk
		if hi > len(records) {
			hi = len(records)
		}
		parts++
		wg.Add(1)
		go func(lo, hi int) {
			defer wg.Done()
			sem <- struct{}{}
			defer func() { <-sem }()
			// a trivially correct first record: TLC reports a violation in the initial
			// state without a state number, which the runtime cannot map to a record
			chunkRecs := append([]any{dummyRecord()}, records[lo:hi]...)
			bad, err := c.JudgeRecords("JudgeAlias", "JudgeAlias.cfg", chunkRecs, 5, withDesign, core.Timeout(20*time.Minute))
			mu.Lock()
			defer mu.Unlock()
			if err != nil {
				if jerr == nil {
					jerr = err
				}
				return
			}
			for i, inv := range bad {
				if i == 0 {
					jerr = fmt.Errorf("judge rejected the trivial record (%s)", inv)
					return
				}
				f := fails[lo+i-1]
				f.Clause = inv
				if inv == "AliasAlgorithm" {
					c.Drift(fmt.Sprintf("real alias result is not what the design algorithm (AliasOps!Search) computes, though it equals the single index: %s", core.Canon(f.Req)))
					continue
				}
				clause := map[string]string{"AliasHits": "hits", "AliasTotal": "total", "AliasFacets": "facets"}[inv]
				what := fmt.Sprintf("TLC judge rejected the real alias result (%s): request %s over corpus %s tree %s returned %s",
					inv, core.Canon(f.Req), core.Canon(f.Corpus), core.Canon(f.Root), core.Canon(f.Alias))
				c.Violation(signature(f.Req, clause)+"/judge", what, f)
			}
		}(lo, hi)
	}
	wg.Wait()
	if jerr != nil {
		return jerr
	}
	c.Traces(parts)
	c.Extra("engineB_records_judged", len(records))
	c.Logf("engine B: %d real alias results judged by TLC", len(records))
	return nil
}

// ---------------------------------------------------------------- run

func run(c *core.Ctx) error {
	c.SetRule("engine A: a TLC-enumerated (corpus, alias tree, assignment of documents to leaves, request) with at least one matching document; " +
		"engine B: a (seeded partition and tree, request of a page / search-after / search-before chain) with at least one matching document")
	c.SetExhaustive(false)
	c.Assume("sorts are total and score-independent (a keyword field with missing-first/last, then _id); scores are not compared (per-shard tf-idf differs legitimately)")
	c.Assume("facets are compared only when the facet size covers all buckets, as the property states")
	c.Assume("search-after / search-before requests use From = 0 (SearchRequest.Validate demands it)")

	only := os.Getenv("VERIF_C09_ONLY") // development knob: any of the letters A B M
	var wg sync.WaitGroup
	if only == "" || strings.Contains(only, "M") {
		type mc struct {
			cfg     string
			workers int
		}
		cfgs := []mc{{"Alias_mc_quick.cfg", 4}, {"Alias_mc_facets.cfg", 2}, {"Alias_mc_size0quirk_pos.cfg", 1}}
		if c.Thorough() {
			cfgs = []mc{{"Alias_mc_thorough.cfg", 6}, {"Alias_mc_4shards.cfg", 2}, {"Alias_mc_quick.cfg", 2}, {"Alias_mc_facets.cfg", 1}, {"Alias_mc_facets5.cfg", 2}, {"Alias_mc_size0quirk_pos.cfg", 1}}
		}
		for _, m := range cfgs {
			wg.Add(1)
			go func(m mc) {
				defer wg.Done()
				c.ModelCheck("Alias", m.cfg, core.Workers(m.workers), core.Timeout(28*time.Minute))
			}(m)
		}
		// the model of hitsInCurrentPage as it was before /repo 22240fd (trim only when
		// Size > 0) must violate PageEqSize0: the design-level reproduction of the repaired
		// finding alias-size0-from-positive-returns-hits. Informational (shows the invariant
		// has teeth), never a verdict, not counted in the evidence's state totals.
		wg.Add(1)
		go func() {
			defer wg.Done()
			res, err := tlc.Run(c.TLCOpts("Alias", "Alias_mc_size0quirk.cfg", core.Workers(1), core.Timeout(5*time.Minute)))
			if err == nil && res != nil {
				c.Extra("model_of_pre_22240fd_hitsInCurrentPage_violates_as_expected", res.Violated)
			}
		}()
	}
	var errA, errB error
	if only == "" || strings.Contains(only, "A") {
		wg.Add(1)
		go func() { defer wg.Done(); errA = engineA(c) }()
	}
	if only == "" || strings.Contains(only, "B") {
		wg.Add(1)
		go func() { defer wg.Done(); errB = engineB(c) }()
	}
	wg.Wait()
	if errA != nil {
		return errA
	}
	return errB
}

func replay(c *core.Ctx, path string) error {
	b, err := os.ReadFile(path)
	if err != nil {
		return err
	}
	var art struct {
		Replay Failure `json:"replay"`
	}
	if err := json.Unmarshal(b, &art); err != nil {
		return err
	}
	f := art.Replay
	w, err := buildWorld(f.Corpus, f.Root, f.Engines)
	if err != nil {
		return err
	}
	defer w.close()
	a, err := observe(w.alias, f.Req, f.Corpus.width(), f.FS)
	if err != nil {
		return err
	}
	s, err := observe(w.single, f.Req, f.Corpus.width(), f.FS)
	if err != nil {
		return err
	}
	c.Eval(2)
	if clause := compare(f.Corpus, f.Req, f.FS, a, s); clause != "" {
		reportPair(c, w, f.Root, f.Engines, f.Req, f.FS, clause, a, s, nil)
	} else {
		c.Logf("replay: alias and single index agree (%s)", core.Canon(a.Hits))
	}
	return nil
}
