package c16

import (
	"bytes"
	"encoding/json"
	"fmt"
	"math/rand"
	"os"
	"path/filepath"
	"time"

	"verif/harness/internal/core"
	"verif/harness/internal/tlc"
)

// Engine B for C16: seeded random mappings that are bigger than the exhaustive
// case space (depth <= 3, <= 3 properties per level, <= 3 fields per property,
// several type mappings). The real code maps a random document with the
// original and with the round-tripped mapping; the two must agree (no oracle
// needed) and the recorded field list is judged by TLC against
// Mapping!MapDocument (spec/trace/JudgeMapping.tla).

var (
	rAnalyzers = []string{"standard", "simple", "keyword", "custA"}
	rParsers   = []string{"dateTimeOptional", "cdate"}
	rTypes     = []string{"text", "number", "boolean", "datetime"}
	rPropNames = []string{"a", "b", "c", "z", "_all"}
	rStrings   = []string{sText, sIso, sSlash, "T1", "T2", "zz"}
)

func pick(r *rand.Rand, xs []string) string { return xs[r.Intn(len(xs))] }
func chance(r *rand.Rand, pct int) bool     { return r.Intn(100) < pct }

// fmSeen: field mappings generated for the mapping under construction; one of
// them is repeated now and then, so that the same field mapping (one shared
// object in the Go-built mapping) sits under different inherited defaults
var fmSeen []mFM

func genFM(r *rand.Rand) mFM {
	if len(fmSeen) > 0 && chance(r, 30) {
		return fmSeen[r.Intn(len(fmSeen))]
	}
	f := genFM1(r)
	fmSeen = append(fmSeen, f)
	return f
}

func genFM1(r *rand.Rand) mFM {
	f := mFM{Type: pick(r, rTypes), Store: chance(r, 50), Index: chance(r, 70), TV: chance(r, 50),
		InAll: chance(r, 60), DV: chance(r, 50), SFN: chance(r, 30)}
	if chance(r, 40) {
		f.Name = pick(r, []string{"x", "y", "a"})
	}
	if chance(r, 35) {
		f.Analyzer = pick(r, rAnalyzers)
	}
	if chance(r, 35) {
		f.DateFormat = pick(r, rParsers)
	}
	return f
}

func genDM(r *rand.Rand, depth int, top bool) *mDM {
	d := &mDM{Enabled: chance(r, 85), Dynamic: chance(r, 65), Fields: []mFM{}, Props: []mProp{}}
	if !top && chance(r, 20) {
		d.Nested = true
	}
	if chance(r, 30) {
		d.DefAnalyzer = pick(r, rAnalyzers)
	}
	if chance(r, 10) {
		d.TagKey = pick(r, []string{"alt", "json"})
	}
	if !top || chance(r, 15) {
		for n := r.Intn(4); n > 0; n-- {
			d.Fields = append(d.Fields, genFM(r))
		}
	}
	if depth > 0 {
		names := append([]string{}, rPropNames...)
		r.Shuffle(len(names), func(i, j int) { names[i], names[j] = names[j], names[i] })
		for _, n := range names[:r.Intn(4)] {
			if n == "_all" && !chance(r, 30) {
				continue
			}
			d.Props = append(d.Props, mProp{Name: n, DM: genDM(r, depth-1, false)})
		}
	}
	return d
}

func genIM(r *rand.Rand) *mIM {
	fmSeen = nil
	m := &mIM{Types: []mProp{}, Def: genDM(r, 3, true), TypeField: pick(r, []string{"_type", "_type", "kind", "a", ""}),
		DefType: pick(r, []string{"_default", "T1", "T2"}), DefAnalyzer: pick(r, rAnalyzers),
		DefDateParser: pick(r, rParsers), DefField: pick(r, []string{"_all", "a", "a.b"}),
		Scoring: pick(r, []string{"", "tf-idf", "bm25"}), StoreDyn: chance(r, 60), IndexDyn: chance(r, 70),
		DVDyn: chance(r, 60), CustomAnalyzers: []string{"custA"}, CustomDateParsers: []string{"cdate"}}
	for _, t := range []string{"T1", "T2"} {
		if chance(r, 50) {
			m.Types = append(m.Types, mProp{Name: t, DM: genDM(r, 2, true)})
		}
	}
	return m
}

func genVal(r *rand.Rand, depth int) mVal {
	k := r.Intn(100)
	switch {
	case k < 30:
		return mVal{K: "str", S: pick(r, rStrings)}
	case k < 42:
		return mVal{K: "num", N: r.Intn(9)}
	case k < 52:
		return mVal{K: "bool", B: chance(r, 50)}
	case k < 58:
		return mVal{K: "null"}
	case k < 78 && depth > 0:
		v := mVal{K: "arr", A: []mVal{}}
		for n := r.Intn(4); n > 0; n-- {
			v.A = append(v.A, genVal(r, depth-1))
		}
		return v
	case depth > 0:
		return genMap(r, depth-1, "")
	}
	return mVal{K: "num", N: r.Intn(9)}
}

func genMap(r *rand.Rand, depth int, typeField string) mVal {
	v := mVal{K: "map", M: []mEntry{}}
	names := append([]string{}, rPropNames...)
	names = append(names, "q")
	r.Shuffle(len(names), func(i, j int) { names[i], names[j] = names[j], names[i] })
	used := map[string]bool{}
	for _, n := range names[:1+r.Intn(4)] {
		used[n] = true
		v.M = append(v.M, mEntry{Key: n, Val: genVal(r, depth)})
	}
	if typeField != "" && !used[typeField] && chance(r, 60) {
		tv := mVal{K: "str", S: pick(r, []string{"T1", "T2", "zz"})}
		if chance(r, 10) {
			tv = mVal{K: "num", N: 1}
		}
		v.M = append(v.M, mEntry{Key: typeField, Val: tv})
	}
	return v
}

func randomJudged(c *core.Ctx) error {
	n := c.Pick(250, 2500)
	r := rand.New(rand.NewSource(c.Seed*7919 + 16))
	var records []any
	var kept []*tcase
	for i := 0; i < n; i++ {
		m := genIM(r)
		tf := m.TypeField
		if tf == "" {
			tf = "_type" // type detection switched off: a "_type" property is ordinary data
		}
		d := genMap(r, 3, tf)
		tc := &tcase{Fam: "random", M: m, D: d, Valid: true}
		im, err := buildMapping(m, int(c.Seed)+i)
		if err != nil {
			return err
		}
		if err := im.Validate(); err != nil {
			return fmt.Errorf("random mapping does not validate: %v", err)
		}
		j1, im2, j2, err := roundTrip(im)
		rep := map[string]any{"case": tc, "variant": int(c.Seed) + i, "random": true}
		if err != nil {
			c.Violation("C16/json-roundtrip-fails", fmt.Sprintf("random mapping: %v", err), rep)
			continue
		}
		if !bytes.Equal(j1, j2) {
			c.Violation("C16/json-differs", fmt.Sprintf("random mapping: second JSON differs from the first:\n first: %s\nsecond: %s", j1, j2), rep)
		}
		if err := im2.Validate(); err != nil {
			c.Violation("C16/validity-differs", fmt.Sprintf("random mapping validates, its round trip does not: %v", err), rep)
			continue
		}
		if a := indexLevelDiff(m, im2); a != "" {
			c.Violation("C16/index-setting-lost:"+a, "random mapping: index level setting differs after the round trip", rep)
		}
		data := materialize(d)
		o1, e1 := observe(im, m, data, nil)
		o2, e2 := observe(im2, m, data, nil)
		if e1 != nil || e2 != nil {
			c.Violation("C16/mapdocument-fails", fmt.Sprintf("random mapping: original %v, round-tripped %v", e1, e2), rep)
			continue
		}
		if o1.Out.canon() != o2.Out.canon() {
			c.Violation("C16/roundtrip-behaviour:"+diffAspect(o1.Out, o2.Out),
				fmt.Sprintf("random mapping: round-tripped mapping maps the document differently\n original: %s\n reparsed: %s", o1.Out.canon(), o2.Out.canon()), rep)
		} else if o1.Tokens != o2.Tokens {
			c.Violation("C16/roundtrip-behaviour:analysed-terms", "random mapping: analysed token frequencies differ after the round trip", rep)
		}
		out := *o2.Out
		if out.Excl == nil {
			out.Excl = []string{}
		}
		tc.Out = &out
		kept = append(kept, tc)
		records = append(records, map[string]any{"m": m, "d": d, "out": &out})
		c.Eval(1)
		if len(out.Fields) > 0 || len(out.Nested) > 0 {
			c.Distinct(caseKey(tc))
		}
	}
	if len(records) == 0 {
		return nil
	}
	if p := os.Getenv("VERIF_C16_DUMP_RECORDS"); p != "" {
		_ = core.WriteNDJSON(p, records)
	}
	// the judge spec EXTENDS Mapping (spec/Mapping.tla): run TLC on a copy of the
	// whole spec directory with the config under trace/ so that the design
	// module is found next to the judge module
	withDesign := core.TLCOpt(func(o *tlc.Opts) {
		o.SpecDir = c.SpecDir
		o.Config = filepath.Join("trace", "JudgeMapping.cfg")
	})
	bad, err := c.JudgeRecords("JudgeMapping", "JudgeMapping.cfg", records, 10, withDesign, core.Timeout(20*time.Minute))
	if err != nil {
		return err
	}
	c.Traces(1)
	for i, inv := range bad {
		tc := kept[i]
		exp := ""
		b, _ := json.Marshal(tc.Out)
		c.Violation("C16/judge:"+inv, fmt.Sprintf("TLC (JudgeMapping!%s) rejects the field list the real round-tripped mapping produced for a random mapping%s\n real: %s", inv, exp, b),
			map[string]any{"case": tc, "random": true, "judge_invariant": inv})
	}
	c.Extra("random_mappings_judged", len(records))
	c.Logf("engine B: %d random mappings judged by TLC, %d rejected", len(records), len(bad))
	if len(kept) > 0 {
		c.Sample(map[string]any{"family": "random", "mapping": kept[0].M, "document": kept[0].D, "real_fields": kept[0].Out})
	}
	return nil
}
