package c16

import (
	"encoding/json"
	"fmt"
	"reflect"
	"sort"
	"strings"
	"time"

	"github.com/blevesearch/bleve/v2/document"
	"github.com/blevesearch/bleve/v2/mapping"
	index "github.com/blevesearch/bleve_index_api"
)

func (v *mVal) UnmarshalJSON(b []byte) error {
	var raw map[string]json.RawMessage
	if err := json.Unmarshal(b, &raw); err != nil {
		return err
	}
	if err := json.Unmarshal(raw["k"], &v.K); err != nil {
		return err
	}
	switch v.K {
	case "str":
		return json.Unmarshal(raw["s"], &v.S)
	case "num":
		return json.Unmarshal(raw["n"], &v.N)
	case "bool":
		return json.Unmarshal(raw["b"], &v.B)
	case "arr":
		return json.Unmarshal(raw["a"], &v.A)
	case "map", "struct":
		var es []struct {
			Key string `json:"key"`
			Alt string `json:"alt"`
			Go  string `json:"go"`
			Val mVal   `json:"val"`
		}
		if err := json.Unmarshal(raw["m"], &es); err != nil {
			return err
		}
		for _, e := range es {
			v.M = append(v.M, mEntry{Key: e.Key, Alt: e.Alt, Go: e.Go, Val: e.Val})
		}
	}
	return nil
}

// Concrete strings of the model (Mapping.tla: SText, SIso, SSlash) and the
// custom analysis components behind the names the model fixes.
const (
	sText  = "quick Fox"
	sIso   = "2001-02-03T04:05:06Z"
	sSlash = "2001/02/03"
)

var dateStrings = []string{sIso, sSlash}

// addCustomAnalysis defines, through the mapping API, every kind of custom
// component: char filter, two tokenizers (one depending on the other, which
// exercises the retry loop of customAnalysis.registerAll), token map, two
// token filters, an analyzer using all of them, and a date parser.
func addCustomAnalysis(im *mapping.IndexMappingImpl, analyzers, parsers []string, variant int) error {
	for _, a := range analyzers {
		if a != "custA" {
			return fmt.Errorf("unknown custom analyzer %q in model", a)
		}
		if err := im.AddCustomCharFilter("cchar", map[string]interface{}{
			"type": "regexp", "regexp": "u", "replace": "oo"}); err != nil {
			return err
		}
		if err := im.AddCustomTokenizer("cbase", map[string]interface{}{
			"type": "regexp", "regexp": "[a-z]+"}); err != nil {
			return err
		}
		if err := im.AddCustomTokenizer("ctok", map[string]interface{}{
			"type": "exception", "exceptions": []interface{}{"[A-Z][a-z]+"}, "tokenizer": "cbase"}); err != nil {
			return err
		}
		if err := im.AddCustomTokenMap("cstop", map[string]interface{}{
			"type": "custom", "tokens": []interface{}{"the", "lazy"}}); err != nil {
			return err
		}
		if err := im.AddCustomTokenFilter("cstopf", map[string]interface{}{
			"type": "stop_tokens", "stop_token_map": "cstop"}); err != nil {
			return err
		}
		if err := im.AddCustomTokenFilter("ctrunc", map[string]interface{}{
			"type": "truncate_token", "length": float64(3 + variant%3)}); err != nil {
			return err
		}
		// numeric options as a Go API user writes them (ints); after the JSON round
		// trip they arrive as float64 and must mean the same
		if err := im.AddCustomTokenFilter("clen", map[string]interface{}{
			"type": "length", "min": 2 + variant%2, "max": float64(8)}); err != nil {
			return err
		}
		if err := im.AddCustomTokenFilter("cshingle", map[string]interface{}{
			"type": "shingle", "min": float64(2), "max": float64(2 + variant%2), "output_original": true}); err != nil {
			return err
		}
		if err := im.AddCustomAnalyzer("custA", map[string]interface{}{
			"type": "custom", "char_filters": []interface{}{"cchar"}, "tokenizer": "ctok",
			"token_filters": []interface{}{"cstopf", "clen", "ctrunc", "cshingle"}}); err != nil {
			return err
		}
		// a second definition under a name that is taken (custom, or a built-in the
		// analyzer above has already instantiated) is refused; if it were accepted the
		// live mapping and its JSON would disagree, which the round trip then shows
		_ = im.AddCustomTokenFilter("ctrunc", map[string]interface{}{
			"type": "truncate_token", "length": float64(1)})
		if variant%2 == 1 {
			_ = im.AnalyzerNamed("custA") // instantiate, pulls the components into the cache
			_ = im.AddCustomCharFilter("cchar", map[string]interface{}{
				"type": "regexp", "regexp": "o", "replace": "00"})
		}
	}
	for _, p := range parsers {
		if p != "cdate" {
			return fmt.Errorf("unknown custom date parser %q in model", p)
		}
		if err := im.AddCustomDateTimeParser("cdate", map[string]interface{}{
			"type": "flexiblego", "layouts": []interface{}{"2006/01/02"}}); err != nil {
			return err
		}
		// an ISO-style parser whose layouts need translating (letters, quoted literals): the
		// recorded configuration must stay what the user wrote, so that it parses the same again
		if err := im.AddCustomDateTimeParser("ciso", map[string]interface{}{
			"type": "isostyle", "layouts": []interface{}{"yyyy-MM-dd'T'HH:mm:ss", "dd MMM yyyy", "HH'h'mm"}}); err != nil {
			return err
		}
	}
	return nil
}

func buildFM(f mFM) *mapping.FieldMapping {
	var fm *mapping.FieldMapping
	switch f.Type {
	case "text":
		fm = mapping.NewTextFieldMapping()
	case "number":
		fm = mapping.NewNumericFieldMapping()
	case "boolean":
		fm = mapping.NewBooleanFieldMapping()
	case "datetime":
		fm = mapping.NewDateTimeFieldMapping()
	default:
		fm = mapping.NewTextFieldMapping()
		fm.Type = f.Type
	}
	fm.Name = f.Name
	fm.Analyzer = f.Analyzer
	fm.Store = f.Store
	fm.Index = f.Index
	fm.IncludeTermVectors = f.TV
	fm.IncludeInAll = f.InAll
	fm.DocValues = f.DV
	fm.SkipFreqNorm = f.SFN
	fm.DateFormat = f.DateFormat
	return fm
}

// sharedFMs, when non-nil, makes buildDM attach ONE *FieldMapping object at every
// place the model has an identical field mapping (the usual Go idiom: build a
// field mapping once, add it wherever needed). JSON has no sharing, so the
// round-tripped mapping has separate objects: behaviour must not depend on it.
type fmPool map[mFM]*mapping.FieldMapping

func buildDM(d *mDM) *mapping.DocumentMapping { return buildDMShared(d, nil) }

func buildDMShared(d *mDM, pool fmPool) *mapping.DocumentMapping {
	dm := mapping.NewDocumentMapping()
	dm.Enabled = d.Enabled
	dm.Dynamic = d.Dynamic
	dm.Nested = d.Nested
	dm.DefaultAnalyzer = d.DefAnalyzer
	dm.StructTagKey = d.TagKey
	for _, f := range d.Fields {
		if pool != nil {
			fm, ok := pool[f]
			if !ok {
				fm = buildFM(f)
				pool[f] = fm
			}
			dm.AddFieldMapping(fm)
			continue
		}
		dm.AddFieldMapping(buildFM(f))
	}
	for _, p := range d.Props {
		dm.AddSubDocumentMapping(p.Name, buildDMShared(p.DM, pool))
	}
	if len(d.Fields) == 0 && pool != nil {
		// "no fields" written as an empty list instead of nothing (a mapping editor's
		// `"fields": []`): means the same, before and after the round trip
		dm.Fields = []*mapping.FieldMapping{}
	}
	return dm
}

// buildMapping constructs the real mapping through the Go API, setting
// exactly the model's options.
func buildMapping(m *mIM, variant int) (*mapping.IndexMappingImpl, error) {
	im := mapping.NewIndexMapping()
	if err := addCustomAnalysis(im, m.CustomAnalyzers, m.CustomDateParsers, variant); err != nil {
		return nil, err
	}
	var pool fmPool
	if variant%2 == 1 {
		pool = fmPool{}
	}
	im.DefaultMapping = buildDMShared(m.Def, pool)
	for _, t := range m.Types {
		im.AddDocumentMapping(t.Name, buildDMShared(t.DM, pool))
	}
	im.TypeField = m.TypeField
	im.DefaultType = m.DefType
	im.DefaultAnalyzer = m.DefAnalyzer
	im.DefaultDateTimeParser = m.DefDateParser
	im.DefaultField = m.DefField
	im.ScoringModel = m.Scoring
	im.StoreDynamic = m.StoreDyn
	im.IndexDynamic = m.IndexDyn
	im.DocValuesDynamic = m.DVDyn
	return im, nil
}

var ifaceType = reflect.TypeOf((*interface{})(nil)).Elem()

// materialize turns an abstract document into the Go value handed to bleve.
func materialize(v mVal) interface{} {
	switch v.K {
	case "str":
		return v.S
	case "num":
		return float64(v.N)
	case "bool":
		return v.B
	case "null":
		return nil
	case "arr":
		out := make([]interface{}, len(v.A))
		for i, e := range v.A {
			out[i] = materialize(e)
		}
		return out
	case "map":
		out := map[string]interface{}{}
		for _, e := range v.M {
			out[e.Key] = materialize(e.Val)
		}
		return out
	case "struct":
		fs := make([]reflect.StructField, len(v.M))
		for i, e := range v.M {
			fs[i] = reflect.StructField{Name: e.Go, Type: ifaceType,
				Tag: reflect.StructTag(fmt.Sprintf(`json:"%s" alt:"%s"`, e.Key, e.Alt))}
		}
		sv := reflect.New(reflect.StructOf(fs)).Elem()
		for i, e := range v.M {
			if x := materialize(e.Val); x != nil {
				sv.Field(i).Set(reflect.ValueOf(x))
			}
		}
		return sv.Interface()
	}
	panic("bad value kind " + v.K)
}

func analyzerNames(m *mIM) []string {
	return append([]string{"standard", "simple", "keyword"}, m.CustomAnalyzers...)
}
func parserNames(m *mIM) []string {
	return append([]string{"dateTimeOptional"}, m.CustomDateParsers...)
}

// observation of one real MapDocument call
type observation struct {
	Out    *oOut
	Tokens string // canonical analysed token frequencies of every field and of _all
}

func optsOf(o index.FieldIndexingOptions) oOpts {
	return oOpts{Store: o.IsStored(), Index: o.IsIndexed(), TV: o.IncludeTermVectors(),
		DV: o.IncludeDocValues(), SFN: o.SkipFreqNorm()}
}

func canonFreqs(tf index.TokenFrequencies) string {
	terms := make([]string, 0, len(tf))
	for t := range tf {
		terms = append(terms, t)
	}
	sort.Strings(terms)
	var sb strings.Builder
	for _, t := range terms {
		f := tf[t]
		fmt.Fprintf(&sb, "%q#%d[", t, f.Frequency())
		locs := make([]string, 0, len(f.Locations))
		for _, l := range f.Locations {
			locs = append(locs, fmt.Sprintf("%s:%v:%d:%d-%d", l.Field, l.ArrayPositions, l.Position, l.Start, l.End))
		}
		sort.Strings(locs)
		sb.WriteString(strings.Join(locs, ","))
		sb.WriteString("]")
	}
	return sb.String()
}

// observeFields reads the fields of a document: name, type through the
// concrete field type, options, array positions, value; analyzer and date
// parser are identified by name through the mapping's own registry.
func observeFields(im *mapping.IndexMappingImpl, m *mIM, doc *document.Document, toks *[]string) ([]oField, error) {
	out := []oField{}
	for _, f := range doc.Fields {
		of := oField{Name: f.Name(), Opts: optsOf(f.Options()), Pos: []int{}}
		for _, p := range f.ArrayPositions() {
			of.Pos = append(of.Pos, int(p))
		}
		switch tf := f.(type) {
		case *document.TextField:
			of.Type = "text"
			of.Val = mVal{K: "str", S: string(tf.Value())}
			of.Analyzer = "?"
			for _, n := range analyzerNames(m) {
				if a := im.AnalyzerNamed(n); a != nil && a == tf.Analyzer() {
					of.Analyzer = n
				}
			}
		case *document.NumericField:
			of.Type = "number"
			n, err := tf.Number()
			if err != nil {
				return nil, err
			}
			of.Val = mVal{K: "num", N: int(n)}
		case *document.BooleanField:
			of.Type = "boolean"
			b, err := tf.Boolean()
			if err != nil {
				return nil, err
			}
			of.Val = mVal{K: "bool", B: b}
		case *document.DateTimeField:
			of.Type = "datetime"
			t, layout, err := tf.DateTime()
			if err != nil {
				return nil, err
			}
			of.Parser, of.Val = "?", mVal{K: "str", S: "?" + t.Format(time.RFC3339Nano) + "|" + layout}
			for _, pn := range parserNames(m) {
				p := im.DateTimeParserNamed(pn)
				if p == nil {
					continue
				}
				for _, s := range dateStrings {
					pt, pl, err := p.ParseDateTime(s)
					if err == nil && pt.Equal(t) && pl == layout {
						of.Parser, of.Val = pn, mVal{K: "str", S: s}
					}
				}
			}
		default:
			of.Type = fmt.Sprintf("%T", f)
		}
		out = append(out, of)
		if f.Options().IsIndexed() {
			f.Analyze()
			*toks = append(*toks, fmt.Sprintf("%s%v|%d|%s", f.Name(), f.ArrayPositions(), f.AnalyzedLength(), canonFreqs(f.AnalyzedTokenFrequencies())))
			if tf, ok := f.(*document.TextField); ok && of.Analyzer != "?" {
				// the analysed terms are those of the analyzer the model names
				want := map[string]bool{}
				for _, t := range im.AnalyzerNamed(of.Analyzer).Analyze([]byte(string(tf.Value()))) {
					want[string(t.Term)] = true
				}
				got := f.AnalyzedTokenFrequencies()
				if len(got) != len(want) {
					return nil, fmt.Errorf("field %s: %d analysed terms, analyzer %s yields %d", f.Name(), len(got), of.Analyzer, len(want))
				}
				for t := range got {
					if !want[t] {
						return nil, fmt.Errorf("field %s: term %q not produced by analyzer %s", f.Name(), t, of.Analyzer)
					}
				}
			}
		}
	}
	return out, nil
}

func observeNested(im *mapping.IndexMappingImpl, m *mIM, parent *document.Document, toks *[]string) ([]oNested, error) {
	out := []oNested{}
	for _, nd := range parent.NestedDocuments {
		id := nd.ID()
		pre := parent.ID() + "_$"
		if !strings.HasPrefix(id, pre) {
			return nil, fmt.Errorf("nested document id %q does not extend parent id %q", id, parent.ID())
		}
		rest := id[len(pre):]
		k := strings.LastIndex(rest, "_$")
		if k < 0 {
			return nil, fmt.Errorf("nested document id %q malformed", id)
		}
		var i int
		if _, err := fmt.Sscanf(rest[k+2:], "%d", &i); err != nil {
			return nil, fmt.Errorf("nested document id %q malformed", id)
		}
		fs, err := observeFields(im, m, nd, toks)
		if err != nil {
			return nil, err
		}
		sub, err := observeNested(im, m, nd, toks)
		if err != nil {
			return nil, err
		}
		out = append(out, oNested{Path: rest[:k], I: i, Fields: fs, Nested: sub})
	}
	return out, nil
}

// observe runs the real MapDocument and reads everything the property talks
// about off the resulting document.Document.
func observe(im *mapping.IndexMappingImpl, m *mIM, data interface{}, probe []string) (obs *observation, err error) {
	defer func() {
		if r := recover(); r != nil {
			err = fmt.Errorf("panic in MapDocument/observation: %v", r)
		}
	}()
	doc := document.NewDocument("d")
	if err := im.MapDocument(doc, data); err != nil {
		return nil, err
	}
	toks := []string{}
	out := &oOut{Indexed: doc.Indexed(), Excl: []string{}}
	if out.Fields, err = observeFields(im, m, doc, &toks); err != nil {
		return nil, err
	}
	if out.Nested, err = observeNested(im, m, doc, &toks); err != nil {
		return nil, err
	}
	for _, cf := range doc.CompositeFields {
		if cf.Name() != "_all" {
			return nil, fmt.Errorf("unexpected composite field %q", cf.Name())
		}
		out.HasAll = true
		// compose as the index does (index/scorch analyze), then probe which
		// field names the composite excludes (include_in_all)
		for _, f := range doc.Fields {
			if f.Options().IsIndexed() && f.Name() != "_id" {
				cf.Compose(f.Name(), f.AnalyzedLength(), f.AnalyzedTokenFrequencies())
			}
		}
		toks = append(toks, fmt.Sprintf("_all|%d|%s", cf.AnalyzedLength(), canonFreqs(cf.AnalyzedTokenFrequencies())))
		names := map[string]bool{"_id": true}
		for _, f := range doc.Fields {
			names[f.Name()] = true
		}
		for _, n := range probe {
			names[n] = true
		}
		for n := range names {
			term := "\x00probe\x00" + n
			cf.Compose(n, 1, index.TokenFrequencies{term: &index.TokenFreq{Term: []byte(term)}})
			if _, in := cf.AnalyzedTokenFrequencies()[term]; !in {
				out.Excl = append(out.Excl, n)
			}
		}
	}
	if !out.HasAll && out.Indexed {
		// no composite: the exclusion list is not observable; the model's list is
		// compared only when the _all field exists
		out.Excl = nil
	}
	sort.Strings(out.Excl)
	sort.Strings(toks)
	return &observation{Out: out, Tokens: strings.Join(toks, "\n")}, nil
}

// comparable view of the model's expectation: when there is no _all field the
// exclusion list has no observable (see observe)
func expectedView(o *oOut) *oOut {
	c := *o
	if !c.HasAll {
		c.Excl = nil
	}
	return &c
}
