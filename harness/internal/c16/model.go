package c16

import (
	"encoding/json"
	"fmt"
	"sort"
	"strings"

	"verif/harness/internal/tlaval"
)

// Go mirrors of the records of spec/Mapping.tla. The JSON field names are the
// TLA+ record field names, so the same values can be handed to the judge spec
// (spec/trace/JudgeMapping.tla) and read back from TLC state dumps.

type mFM struct {
	Type       string `json:"type"`
	Name       string `json:"name"`
	Analyzer   string `json:"analyzer"`
	Store      bool   `json:"store"`
	Index      bool   `json:"index"`
	TV         bool   `json:"tv"`
	InAll      bool   `json:"inAll"`
	DV         bool   `json:"dv"`
	SFN        bool   `json:"sfn"`
	DateFormat string `json:"dateFormat"`
}

type mProp struct {
	Name string `json:"name"`
	DM   *mDM   `json:"dm"`
}

type mDM struct {
	Enabled     bool    `json:"enabled"`
	Dynamic     bool    `json:"dynamic"`
	Nested      bool    `json:"nested"`
	DefAnalyzer string  `json:"defAnalyzer"`
	TagKey      string  `json:"tagKey"`
	Fields      []mFM   `json:"fields"`
	Props       []mProp `json:"props"`
}

type mIM struct {
	Types             []mProp  `json:"types"`
	Def               *mDM     `json:"def"`
	TypeField         string   `json:"typeField"`
	DefType           string   `json:"defType"`
	DefAnalyzer       string   `json:"defAnalyzer"`
	DefDateParser     string   `json:"defDateParser"`
	DefField          string   `json:"defField"`
	Scoring           string   `json:"scoring"`
	StoreDyn          bool     `json:"storeDyn"`
	IndexDyn          bool     `json:"indexDyn"`
	DVDyn             bool     `json:"dvDyn"`
	CustomAnalyzers   []string `json:"customAnalyzers"`
	CustomDateParsers []string `json:"customDateParsers"`
}

// mVal is a document value (see Mapping.tla: VStr, VNum, ...).
type mVal struct {
	K string
	S string
	N int
	B bool
	A []mVal
	M []mEntry
}

type mEntry struct {
	Key string
	Alt string
	Go  string
	Val mVal
}

func (v mVal) MarshalJSON() ([]byte, error) {
	switch v.K {
	case "str":
		return json.Marshal(map[string]any{"k": "str", "s": v.S})
	case "num":
		return json.Marshal(map[string]any{"k": "num", "n": v.N})
	case "bool":
		return json.Marshal(map[string]any{"k": "bool", "b": v.B})
	case "null":
		return json.Marshal(map[string]any{"k": "null"})
	case "arr":
		a := v.A
		if a == nil {
			a = []mVal{}
		}
		return json.Marshal(map[string]any{"k": "arr", "a": a})
	case "map", "struct":
		es := make([]any, 0, len(v.M))
		for _, e := range v.M {
			if v.K == "struct" {
				es = append(es, map[string]any{"key": e.Key, "alt": e.Alt, "go": e.Go, "val": e.Val})
			} else {
				es = append(es, map[string]any{"key": e.Key, "val": e.Val})
			}
		}
		return json.Marshal(map[string]any{"k": v.K, "m": es})
	}
	return nil, fmt.Errorf("bad value kind %q", v.K)
}

type oOpts struct {
	Store bool `json:"store"`
	Index bool `json:"index"`
	TV    bool `json:"tv"`
	DV    bool `json:"dv"`
	SFN   bool `json:"sfn"`
}

type oField struct {
	Name     string `json:"name"`
	Type     string `json:"type"`
	Opts     oOpts  `json:"opts"`
	Analyzer string `json:"analyzer"`
	Parser   string `json:"parser"`
	Pos      []int  `json:"pos"`
	Val      mVal   `json:"val"`
}

type oNested struct {
	Path   string    `json:"path"`
	I      int       `json:"i"`
	Fields []oField  `json:"fields"`
	Nested []oNested `json:"nested"`
}

type oOut struct {
	Indexed bool      `json:"indexed"`
	Fields  []oField  `json:"fields"`
	HasAll  bool      `json:"hasAll"`
	Excl    []string  `json:"excl"`
	Nested  []oNested `json:"nested"`
}

// ---- canonical forms (field order between map keys is not part of the
// property: Go map iteration is random; fields are compared as bags)

func fieldKey(f oField) string {
	b, _ := json.Marshal(f)
	return string(b)
}

func canonFields(fs []oField) []string {
	out := make([]string, len(fs))
	for i, f := range fs {
		if f.Pos == nil {
			f.Pos = []int{}
		}
		out[i] = fieldKey(f)
	}
	sort.Strings(out)
	return out
}

func canonNested(ns []oNested) []any {
	out := make([]any, 0, len(ns))
	keys := make([]string, 0, len(ns))
	m := map[string]any{}
	for _, n := range ns {
		v := map[string]any{"path": n.Path, "i": n.I, "fields": canonFields(n.Fields), "nested": canonNested(n.Nested)}
		b, _ := json.Marshal(v)
		keys = append(keys, string(b))
		m[string(b)] = v
	}
	sort.Strings(keys)
	for _, k := range keys {
		out = append(out, m[k])
	}
	return out
}

func (o *oOut) canon() string {
	ex := append([]string{}, o.Excl...)
	sort.Strings(ex)
	b, _ := json.Marshal(map[string]any{"indexed": o.Indexed, "hasAll": o.HasAll, "excl": ex,
		"fields": canonFields(o.Fields), "nested": canonNested(o.Nested)})
	return string(b)
}

// diffAspect names the first aspect in which two outcomes differ (used in
// violation signatures so that different breakages get different keys).
func diffAspect(want, got *oOut) string {
	if want.Indexed != got.Indexed {
		return "indexed"
	}
	if want.HasAll != got.HasAll {
		return "all-field"
	}
	we, ge := append([]string{}, want.Excl...), append([]string{}, got.Excl...)
	sort.Strings(we)
	sort.Strings(ge)
	if strings.Join(we, "\x00") != strings.Join(ge, "\x00") {
		return "include_in_all"
	}
	if a := diffFields(want.Fields, got.Fields); a != "" {
		return a
	}
	wn, _ := json.Marshal(canonNested(want.Nested))
	gn, _ := json.Marshal(canonNested(got.Nested))
	if string(wn) != string(gn) {
		return "nested"
	}
	return ""
}

func diffFields(want, got []oField) string {
	key := func(f oField) string { return fmt.Sprintf("%s|%v|%s", f.Name, f.Pos, f.Type) }
	wm, gm := map[string][]oField{}, map[string][]oField{}
	for _, f := range want {
		wm[key(f)] = append(wm[key(f)], f)
	}
	for _, f := range got {
		gm[key(f)] = append(gm[key(f)], f)
	}
	for k, wl := range wm {
		gl := gm[k]
		if len(gl) != len(wl) {
			if len(gl) < len(wl) {
				return "field-missing"
			}
			return "field-extra"
		}
	}
	for k := range gm {
		if len(wm[k]) == 0 {
			return "field-extra"
		}
	}
	wc, gc := canonFields(want), canonFields(got)
	if strings.Join(wc, "\n") == strings.Join(gc, "\n") {
		return ""
	}
	// same (name,pos,type) multiset: find the attribute
	for k, wl := range wm {
		gl := gm[k]
		if len(wl) == 1 && len(gl) == 1 {
			w, g := wl[0], gl[0]
			switch {
			case w.Opts.Store != g.Opts.Store:
				return "opt.store"
			case w.Opts.Index != g.Opts.Index:
				return "opt.index"
			case w.Opts.TV != g.Opts.TV:
				return "opt.include_term_vectors"
			case w.Opts.DV != g.Opts.DV:
				return "opt.docvalues"
			case w.Opts.SFN != g.Opts.SFN:
				return "opt.skip_freq_norm"
			case w.Analyzer != g.Analyzer:
				return "analyzer"
			case w.Parser != g.Parser:
				return "date-parser"
			case fieldKey(w) != fieldKey(g):
				return "value"
			}
		}
	}
	return "field-attributes"
}

// ---- conversion from TLC values

func cvFM(v any) mFM {
	m := tlaval.Map(v)
	return mFM{Type: tlaval.Str(m["type"]), Name: tlaval.Str(m["name"]), Analyzer: tlaval.Str(m["analyzer"]),
		Store: tlaval.Bool(m["store"]), Index: tlaval.Bool(m["index"]), TV: tlaval.Bool(m["tv"]),
		InAll: tlaval.Bool(m["inAll"]), DV: tlaval.Bool(m["dv"]), SFN: tlaval.Bool(m["sfn"]),
		DateFormat: tlaval.Str(m["dateFormat"])}
}

func cvProps(v any) []mProp {
	out := []mProp{}
	for _, p := range tlaval.List(v) {
		pm := tlaval.Map(p)
		out = append(out, mProp{Name: tlaval.Str(pm["name"]), DM: cvDM(pm["dm"])})
	}
	return out
}

func cvDM(v any) *mDM {
	m := tlaval.Map(v)
	d := &mDM{Enabled: tlaval.Bool(m["enabled"]), Dynamic: tlaval.Bool(m["dynamic"]), Nested: tlaval.Bool(m["nested"]),
		DefAnalyzer: tlaval.Str(m["defAnalyzer"]), TagKey: tlaval.Str(m["tagKey"]), Fields: []mFM{}, Props: cvProps(m["props"])}
	for _, f := range tlaval.List(m["fields"]) {
		d.Fields = append(d.Fields, cvFM(f))
	}
	return d
}

func cvStrSet(v any) []string {
	out := []string{}
	for _, e := range tlaval.List(v) {
		out = append(out, tlaval.Str(e))
	}
	sort.Strings(out)
	return out
}

func cvIM(v any) *mIM {
	m := tlaval.Map(v)
	return &mIM{Types: cvProps(m["types"]), Def: cvDM(m["def"]), TypeField: tlaval.Str(m["typeField"]),
		DefType: tlaval.Str(m["defType"]), DefAnalyzer: tlaval.Str(m["defAnalyzer"]),
		DefDateParser: tlaval.Str(m["defDateParser"]), DefField: tlaval.Str(m["defField"]),
		Scoring: tlaval.Str(m["scoring"]), StoreDyn: tlaval.Bool(m["storeDyn"]), IndexDyn: tlaval.Bool(m["indexDyn"]),
		DVDyn: tlaval.Bool(m["dvDyn"]), CustomAnalyzers: cvStrSet(m["customAnalyzers"]),
		CustomDateParsers: cvStrSet(m["customDateParsers"])}
}

func cvVal(v any) mVal {
	m := tlaval.Map(v)
	k := tlaval.Str(m["k"])
	out := mVal{K: k}
	switch k {
	case "str":
		out.S = tlaval.Str(m["s"])
	case "num":
		out.N = tlaval.Int(m["n"])
	case "bool":
		out.B = tlaval.Bool(m["b"])
	case "arr":
		for _, e := range tlaval.List(m["a"]) {
			out.A = append(out.A, cvVal(e))
		}
	case "map", "struct":
		for _, e := range tlaval.List(m["m"]) {
			em := tlaval.Map(e)
			en := mEntry{Key: tlaval.Str(em["key"]), Val: cvVal(em["val"])}
			if k == "struct" {
				en.Alt = tlaval.Str(em["alt"])
				en.Go = tlaval.Str(em["go"])
			}
			out.M = append(out.M, en)
		}
	}
	return out
}

func cvFields(v any) []oField {
	out := []oField{}
	for _, f := range tlaval.List(v) {
		m := tlaval.Map(f)
		om := tlaval.Map(m["opts"])
		of := oField{Name: tlaval.Str(m["name"]), Type: tlaval.Str(m["type"]), Analyzer: tlaval.Str(m["analyzer"]),
			Parser: tlaval.Str(m["parser"]), Val: cvVal(m["val"]), Pos: []int{},
			Opts: oOpts{Store: tlaval.Bool(om["store"]), Index: tlaval.Bool(om["index"]), TV: tlaval.Bool(om["tv"]),
				DV: tlaval.Bool(om["dv"]), SFN: tlaval.Bool(om["sfn"])}}
		for _, p := range tlaval.List(m["pos"]) {
			of.Pos = append(of.Pos, tlaval.Int(p))
		}
		out = append(out, of)
	}
	return out
}

func cvNested(v any) []oNested {
	out := []oNested{}
	for _, n := range tlaval.List(v) {
		m := tlaval.Map(n)
		out = append(out, oNested{Path: tlaval.Str(m["path"]), I: tlaval.Int(m["i"]),
			Fields: cvFields(m["fields"]), Nested: cvNested(m["nested"])})
	}
	return out
}

func cvOut(v any) *oOut {
	m := tlaval.Map(v)
	return &oOut{Indexed: tlaval.Bool(m["indexed"]), HasAll: tlaval.Bool(m["hasAll"]), Excl: cvStrSet(m["excl"]),
		Fields: cvFields(m["fields"]), Nested: cvNested(m["nested"])}
}

type tcase struct {
	Fam   string `json:"fam"`
	M     *mIM   `json:"m"`
	D     mVal   `json:"d"`
	Valid bool   `json:"valid"`
	Out   *oOut  `json:"out"`
}

func cvCase(st tlaval.State) (*tcase, bool) {
	if d, ok := st["done"].(bool); !ok || !d {
		return nil, false
	}
	m := tlaval.Map(st["c"])
	return &tcase{Fam: tlaval.Str(m["fam"]), M: cvIM(m["m"]), D: cvVal(m["d"]),
		Valid: tlaval.Bool(m["valid"]), Out: cvOut(m["out"])}, true
}
