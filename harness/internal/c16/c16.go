// Package c16 checks property C16 "A mapping survives its JSON form: reopened
// indexes map documents identically".
//
// The model decides: spec/Mapping.tla transcribes MapDocument / walkDocument /
// processProperty / Validate and the JSON form of a mapping; TLC checks, on
// every case of spec/MappingCases.tla, that the JSON form loses nothing
// (RoundTrip(m) = m), that the algorithm agrees with its compositional meaning
// and computes the expected field list of the case.
//
// The code is bound (Engine A): every TLC case is rebuilt as a real
// mapping.IndexMappingImpl through the Go API, validated, marshalled,
// unmarshalled, marshalled again, and both mappings (and, for every distinct
// mapping of a sample, the mapping of a really created, closed and reopened
// index) map the case's document; the resulting document.Document is compared
// with the model's expectation and between the mappings. Engine B: seeded
// random bigger mappings are run through the real code and TLC judges the
// recorded field lists against Mapping!MapDocument (spec/trace/JudgeMapping).
package c16

import (
	"bytes"
	"encoding/json"
	"fmt"
	"os"
	"path/filepath"
	"runtime"
	"sort"
	"strings"
	"sync"
	"sync/atomic"
	"time"

	"github.com/blevesearch/bleve/v2"
	_ "github.com/blevesearch/bleve/v2/config"
	"github.com/blevesearch/bleve/v2/mapping"
	index "github.com/blevesearch/bleve_index_api"

	"verif/harness/internal/core"
	"verif/harness/internal/tlaval"
	"verif/harness/internal/tlc"
)

func init() {
	core.Register(&core.Check{Prop: "C16", Level: "model_checking", Run: run, Replay: replay})
}

// checkAssumptions verifies the model's Parses table against the real date
// parsers and that the custom components can be defined at all.
func checkAssumptions() error {
	m := &mIM{CustomAnalyzers: []string{"custA"}, CustomDateParsers: []string{"cdate"}, Def: &mDM{Enabled: true, Dynamic: true},
		TypeField: "_type", DefType: "_default", DefAnalyzer: "standard", DefDateParser: "dateTimeOptional", DefField: "_all"}
	im, err := buildMapping(m, 0)
	if err != nil {
		return fmt.Errorf("custom analysis components cannot be defined: %v", err)
	}
	if err := im.Validate(); err != nil {
		return fmt.Errorf("reference mapping does not validate: %v", err)
	}
	table := map[string]map[string]bool{
		"dateTimeOptional": {sIso: true, sSlash: false, sText: false, "T1": false, "T2": false, "zz": false},
		"cdate":            {sIso: false, sSlash: true, sText: false, "T1": false, "T2": false, "zz": false},
	}
	for pn, row := range table {
		p := im.DateTimeParserNamed(pn)
		if p == nil {
			return fmt.Errorf("date parser %s missing", pn)
		}
		for s, want := range row {
			_, _, err := p.ParseDateTime(s)
			if (err == nil) != want {
				return fmt.Errorf("model table Parses(%s, %q) = %v does not hold for the real parser", pn, s, want)
			}
		}
	}
	for _, a := range []string{"standard", "simple", "keyword", "custA"} {
		if im.AnalyzerNamed(a) == nil {
			return fmt.Errorf("analyzer %s missing", a)
		}
	}
	return nil
}

type problem struct {
	sig, what string
}

// roundTrip marshals, parses the JSON the way openIndexUsing does (into a nil
// *IndexMappingImpl) and marshals again.
func roundTrip(im *mapping.IndexMappingImpl) (j1 []byte, im2 *mapping.IndexMappingImpl, j2 []byte, err error) {
	j1, err = json.Marshal(im)
	if err != nil {
		return nil, nil, nil, fmt.Errorf("marshal: %v", err)
	}
	if err = json.Unmarshal(j1, &im2); err != nil {
		return j1, nil, nil, fmt.Errorf("unmarshal: %v", err)
	}
	j2, err = json.Marshal(im2)
	if err != nil {
		return j1, im2, nil, fmt.Errorf("marshal of the parsed mapping: %v", err)
	}
	return j1, im2, j2, nil
}

func indexLevelDiff(m *mIM, im *mapping.IndexMappingImpl) string {
	switch {
	case im.TypeField != m.TypeField:
		return "type_field"
	case im.DefaultType != m.DefType:
		return "default_type"
	case im.DefaultAnalyzer != m.DefAnalyzer:
		return "default_analyzer"
	case im.DefaultDateTimeParser != m.DefDateParser:
		return "default_datetime_parser"
	case im.DefaultField != m.DefField || im.DefaultSearchField() != m.DefField:
		return "default_field"
	case im.ScoringModel != m.Scoring:
		return "scoring_model"
	case im.StoreDynamic != m.StoreDyn:
		return "store_dynamic"
	case im.IndexDynamic != m.IndexDyn:
		return "index_dynamic"
	case im.DocValuesDynamic != m.DVDyn:
		return "docvalues_dynamic"
	}
	return ""
}

// customBehaviour analyses a probe text with every analyzer name and parses
// the date strings with every parser name the mapping defines.
func customBehaviour(m *mIM, im *mapping.IndexMappingImpl) string {
	var sb strings.Builder
	for _, a := range analyzerNames(m) {
		an := im.AnalyzerNamed(a)
		if an == nil {
			fmt.Fprintf(&sb, "%s:nil;", a)
			continue
		}
		fmt.Fprintf(&sb, "%s:", a)
		for _, t := range an.Analyze([]byte("The quick brown Fox jumps over the lazy Unicorn uu")) {
			fmt.Fprintf(&sb, "%s@%d/%d-%d,", t.Term, t.Position, t.Start, t.End)
		}
		sb.WriteString(";")
	}
	for _, pn := range parserNames(m) {
		p := im.DateTimeParserNamed(pn)
		if p == nil {
			fmt.Fprintf(&sb, "%s:nil;", pn)
			continue
		}
		for _, s := range append([]string{sText}, dateStrings...) {
			t, l, err := p.ParseDateTime(s)
			fmt.Fprintf(&sb, "%s(%s)=%v|%s|%v;", pn, s, t.UTC().Format(time.RFC3339Nano), l, err == nil)
		}
	}
	return sb.String()
}

// checkCase replays one model case into the real code. withIndex additionally
// creates a real index with the mapping, closes it, reopens it and checks the
// reopened mapping. Returned problems are property-level failures.
func checkCase(tc *tcase, variant int, withIndex bool, dir string) (probs []problem, drift string, err error) {
	defer func() {
		if r := recover(); r != nil {
			probs = append(probs, problem{"panic", fmt.Sprintf("panic while handling the mapping: %v", r)})
		}
	}()
	im, err := buildMapping(tc.M, variant)
	if err != nil {
		return nil, "", err
	}
	verr := im.Validate()
	if (verr == nil) != tc.Valid {
		// the model's notion of validity is part of the transcription, not of the
		// property: report as drift unless it also breaks round-trip validity below
		drift = fmt.Sprintf("Validate() = %v but model Valid = %v (family %s)", verr, tc.Valid, tc.Fam)
	}
	j1, im2, j2, rerr := roundTrip(im)
	if rerr != nil {
		if verr == nil {
			probs = append(probs, problem{"json-roundtrip-fails", fmt.Sprintf("valid mapping does not survive JSON: %v", rerr)})
		}
		return probs, drift, nil
	}
	if !bytes.Equal(j1, j2) {
		probs = append(probs, problem{"json-differs", fmt.Sprintf("second JSON differs from the first:\n first: %s\nsecond: %s", j1, j2)})
	}
	verr2 := im2.Validate()
	if (verr == nil) != (verr2 == nil) {
		probs = append(probs, problem{"validity-differs", fmt.Sprintf("Validate() before round trip: %v, after: %v", verr, verr2)})
	}
	if a := indexLevelDiff(tc.M, im2); a != "" {
		probs = append(probs, problem{"index-setting-lost:" + a, fmt.Sprintf("index level setting %s differs after the round trip; JSON %s", a, j1)})
	}
	if verr != nil || verr2 != nil {
		if withIndex && verr != nil {
			p := filepath.Join(dir, "invalid.bleve")
			idx, e := bleve.New(p, im)
			defer os.RemoveAll(p)
			if e == nil {
				_ = idx.Close()
				probs = append(probs, problem{"invalid-mapping-accepted", "bleve.New accepted a mapping whose Validate() fails"})
			}
		}
		return probs, drift, nil
	}
	if b1, b2 := customBehaviour(tc.M, im), customBehaviour(tc.M, im2); b1 != b2 {
		probs = append(probs, problem{"analysis-component-differs", fmt.Sprintf("custom/builtin analysis behaves differently after the round trip:\n before: %s\n after:  %s", b1, b2)})
	}
	data := materialize(tc.D)
	want := expectedView(tc.Out)
	o1, e1 := observe(im, tc.M, data, tc.Out.Excl)
	if e1 != nil {
		probs = append(probs, problem{"mapdocument-fails", fmt.Sprintf("original mapping: %v", e1)})
		return probs, drift, nil
	}
	o2, e2 := observe(im2, tc.M, data, tc.Out.Excl)
	if e2 != nil {
		probs = append(probs, problem{"mapdocument-fails-after-roundtrip", fmt.Sprintf("round-tripped mapping: %v", e2)})
		return probs, drift, nil
	}
	if o1.Out.canon() != o2.Out.canon() {
		probs = append(probs, problem{"roundtrip-behaviour:" + diffAspect(o1.Out, o2.Out),
			fmt.Sprintf("round-tripped mapping maps the document differently\n original: %s\n reparsed: %s", o1.Out.canon(), o2.Out.canon())})
	} else if o1.Tokens != o2.Tokens {
		probs = append(probs, problem{"roundtrip-behaviour:analysed-terms",
			fmt.Sprintf("analysed token frequencies differ after the round trip\n original: %s\n reparsed: %s", o1.Tokens, o2.Tokens)})
	}
	if want.canon() != o2.Out.canon() {
		probs = append(probs, problem{"model-expectation:" + diffAspect(want, o2.Out),
			fmt.Sprintf("round-tripped mapping does not map the document as Mapping!MapDocument\n model: %s\n real:  %s", want.canon(), o2.Out.canon())})
	} else if want.canon() != o1.Out.canon() {
		probs = append(probs, problem{"model-expectation-original:" + diffAspect(want, o1.Out),
			fmt.Sprintf("original mapping does not map the document as Mapping!MapDocument\n model: %s\n real:  %s", want.canon(), o1.Out.canon())})
	}
	if withIndex {
		ps, e := checkReopen(tc, im, j1, data, o1, dir)
		if e != nil {
			return probs, drift, e
		}
		probs = append(probs, ps...)
	}
	return probs, drift, nil
}

// checkReopen: bleve.New(path, mapping) / Index / Close / bleve.Open(path);
// the reopened index's Mapping() must serialise to the same JSON and map the
// document identically; a document indexed after the reopen must be stored
// like the one indexed before it.
func checkReopen(tc *tcase, im *mapping.IndexMappingImpl, j1 []byte, data interface{}, o1 *observation, dir string) (probs []problem, err error) {
	path := filepath.Join(dir, "i.bleve")
	defer os.RemoveAll(path)
	idx, err := bleve.New(path, im)
	if err != nil {
		return []problem{{"index-create-fails", fmt.Sprintf("bleve.New with a valid mapping: %v", err)}}, nil
	}
	if err := idx.Index("d1", data); err != nil {
		_ = idx.Close()
		return []problem{{"index-doc-fails", fmt.Sprintf("Index before reopen: %v", err)}}, nil
	}
	if err := idx.Close(); err != nil {
		return nil, fmt.Errorf("close: %v", err)
	}
	idx, err = bleve.Open(path)
	if err != nil {
		return []problem{{"reopen-fails", fmt.Sprintf("bleve.Open of an index created with a valid mapping: %v; mapping %s", err, j1)}}, nil
	}
	defer idx.Close()
	im3, ok := idx.Mapping().(*mapping.IndexMappingImpl)
	if !ok {
		return nil, fmt.Errorf("reopened mapping is %T", idx.Mapping())
	}
	j3, err := json.Marshal(im3)
	if err != nil {
		return nil, err
	}
	if !bytes.Equal(j1, j3) {
		probs = append(probs, problem{"reopen-json-differs", fmt.Sprintf("mapping of the reopened index serialises differently:\n created:  %s\n reopened: %s", j1, j3)})
	}
	o3, e3 := observe(im3, tc.M, data, tc.Out.Excl)
	if e3 != nil {
		return append(probs, problem{"mapdocument-fails-after-reopen", e3.Error()}), nil
	}
	if o1.Out.canon() != o3.Out.canon() {
		probs = append(probs, problem{"reopen-behaviour:" + diffAspect(o1.Out, o3.Out),
			fmt.Sprintf("reopened index maps the document differently\n created:  %s\n reopened: %s", o1.Out.canon(), o3.Out.canon())})
	} else if o1.Tokens != o3.Tokens {
		probs = append(probs, problem{"reopen-behaviour:analysed-terms", "analysed token frequencies differ after reopen"})
	}
	// end to end: the same document indexed after the reopen is stored as before
	if err := idx.Index("d2", data); err != nil {
		return append(probs, problem{"index-doc-fails-after-reopen", err.Error()}), nil
	}
	s1, err := storedView(idx, "d1")
	if err != nil {
		return nil, err
	}
	s2, err := storedView(idx, "d2")
	if err != nil {
		return nil, err
	}
	if s1 != s2 {
		probs = append(probs, problem{"reopen-stored-fields-differ", fmt.Sprintf("stored fields of the document indexed before and after the reopen differ\n before: %s\n after:  %s", s1, s2)})
	}
	return probs, nil
}

func storedView(idx bleve.Index, id string) (string, error) {
	d, err := idx.Document(id)
	if err != nil {
		return "", err
	}
	if d == nil {
		return "<absent>", nil
	}
	var fs []string
	d.VisitFields(func(f index.Field) {
		fs = append(fs, fmt.Sprintf("%s%v:%c:%x", f.Name(), f.ArrayPositions(), f.EncodedFieldType(), f.Value()))
	})
	sort.Strings(fs)
	return strings.Join(fs, ";"), nil
}

func caseKey(tc *tcase) string {
	b, _ := json.Marshal(map[string]any{"m": tc.M, "d": tc.D})
	return string(b)
}

func mappingKey(m *mIM) string {
	b, _ := json.Marshal(m)
	return string(b)
}

func nontrivial(tc *tcase) bool {
	return !tc.Valid || len(tc.Out.Fields) > 0 || len(tc.Out.Nested) > 0
}

func run(c *core.Ctx) error {
	if err := checkAssumptions(); err != nil {
		return fmt.Errorf("model assumptions do not hold on this tree: %v", err)
	}
	c.Assume("the strings of the model's Parses table are accepted/rejected by the real date parsers as the table says (checked at start)")
	c.Assume("the model fixes only the names of analyzers and date parsers; their behaviour is compared between the original, the round-tripped and the reopened mapping")
	c.Assume("field order between different keys of a Go map document is not compared (map iteration order); fields are compared as bags with their array positions")

	cfg := "MappingCases_mc_quick.cfg"
	if c.Thorough() {
		cfg = "MappingCases_mc_thorough.cfg"
	}
	// 1. the model decides + enumeration of the case space (one TLC run: the
	// invariants are checked on every case, the states are dumped for replay)
	var cases []*tcase
	t0 := time.Now()
	res, err := tlc.DumpStates(c.TLCOpts("MappingCases", cfg, core.Workers(4), core.Timeout(25*time.Minute)), func(st tlaval.State) error {
		if tc, ok := cvCase(st); ok {
			cases = append(cases, tc)
		}
		return nil
	})
	c.Account("MappingCases", cfg, "exhaustive+dump", res)
	if err != nil {
		return fmt.Errorf("TLC MappingCases/%s: %v", cfg, err)
	}
	if !res.OK {
		c.Inconclusive(fmt.Sprintf("TLC MappingCases/%s did not pass (violated=%q): %s", cfg, res.Violated, res.ErrorText))
		return nil
	}
	c.Logf("model: %d states, %d cases dumped in %.1fs", res.Distinct, len(cases), time.Since(t0).Seconds())
	if len(cases) == 0 {
		return fmt.Errorf("no cases dumped")
	}

	// 2. Engine A: replay every case; real create/close/open for the first case
	// of every distinct valid mapping (quick: a seeded sample of them)
	seenMapping := map[string]bool{}
	withIndex := make([]bool, len(cases))
	var idxCand []int
	for i, tc := range cases {
		k := mappingKey(tc.M)
		if !seenMapping[k] {
			seenMapping[k] = true
			idxCand = append(idxCand, i)
		}
	}
	c.Rand.Shuffle(len(idxCand), func(i, j int) { idxCand[i], idxCand[j] = idxCand[j], idxCand[i] })
	nIdx := c.Pick(400, 4000)
	if nIdx > len(idxCand) {
		nIdx = len(idxCand)
	}
	for _, i := range idxCand[:nIdx] {
		withIndex[i] = true
	}
	// every invalid mapping and every family is in the index sample
	famSeen := map[string]bool{}
	for i, tc := range cases {
		if !tc.Valid || !famSeen[tc.Fam] {
			withIndex[i] = true
			famSeen[tc.Fam] = true
		}
	}
	var reopened int64
	famCount := map[string]int{}
	var mu sync.Mutex
	var wg sync.WaitGroup
	work := make(chan int, 64)
	nw := runtime.NumCPU()
	if nw > 8 {
		nw = 8
	}
	var firstErr atomic.Value
	for w := 0; w < nw; w++ {
		wg.Add(1)
		dir := c.TempDir("idx")
		go func() {
			defer wg.Done()
			for i := range work {
				tc := cases[i]
				variant := int(c.Seed) + i
				probs, drift, err := checkCase(tc, variant, withIndex[i], dir)
				if err != nil {
					firstErr.CompareAndSwap(nil, fmt.Errorf("case %d (%s): %v", i, tc.Fam, err))
					continue
				}
				if withIndex[i] {
					atomic.AddInt64(&reopened, 1)
				}
				if drift != "" {
					c.Drift(drift)
				}
				for _, p := range probs {
					c.Violation("C16/"+p.sig, fmt.Sprintf("family %s: %s", tc.Fam, p.what),
						map[string]any{"case": tc, "variant": variant, "with_index": withIndex[i]})
				}
				c.Eval(1)
				if nontrivial(tc) {
					c.Distinct(caseKey(tc))
				}
				mu.Lock()
				famCount[tc.Fam]++
				mu.Unlock()
			}
		}()
	}
	for i := range cases {
		work <- i
	}
	close(work)
	wg.Wait()
	if e, _ := firstErr.Load().(error); e != nil {
		return e
	}
	c.Logf("engine A: %d cases replayed, %d with a real create/close/open", len(cases), reopened)
	c.Extra("cases_by_family", famCount)
	c.Extra("cases_with_real_reopen", reopened)
	c.Extra("distinct_mappings", len(seenMapping))
	for _, i := range []int{0, len(cases) / 3, 2 * len(cases) / 3} {
		tc := cases[i]
		im, _ := buildMapping(tc.M, 0)
		j, _ := json.Marshal(im)
		c.Sample(map[string]any{"family": tc.Fam, "mapping_json": json.RawMessage(j), "document": tc.D, "expected": tc.Out})
	}

	// 3. Engine B: seeded random bigger mappings, judged by TLC
	if err := randomJudged(c); err != nil {
		return err
	}

	c.SetRule("a case = (mapping tree, document) enumerated by TLC from spec/MappingCases.tla (families: field options, structure/enabled/dynamic, nested, analyzer inheritance, type selection, multi-field properties, dynamic defaults, date formats, _all, struct tags, index-level settings, invalid mappings) plus seeded random bigger mappings; distinct = distinct (mapping, document); non-trivial = the model expects at least one field or nested document, or the mapping is invalid")
	c.SetExhaustive(true)
	c.Extra("exhaustive_scope", "every case of the finite TLC case space of the tier is replayed; the random bigger mappings (engine B) are a seeded sample")
	return nil
}

func replay(c *core.Ctx, path string) error {
	b, err := os.ReadFile(path)
	if err != nil {
		return err
	}
	var f struct {
		Replay struct {
			Case      *tcase `json:"case"`
			Variant   int    `json:"variant"`
			WithIndex bool   `json:"with_index"`
		} `json:"replay"`
	}
	if err := json.Unmarshal(b, &f); err != nil {
		return err
	}
	if f.Replay.Case == nil {
		return fmt.Errorf("no case in %s", path)
	}
	probs, drift, err := checkCase(f.Replay.Case, f.Replay.Variant, f.Replay.WithIndex, c.TempDir("idx"))
	if err != nil {
		return err
	}
	if drift != "" {
		c.Drift(drift)
	}
	for _, p := range probs {
		c.Violation("C16/"+p.sig, p.what, f.Replay)
	}
	c.Eval(1)
	c.Distinct(caseKey(f.Replay.Case))
	c.Distinct("replay")
	c.Sample(f.Replay.Case)
	c.SetRule("replay of one saved case")
	return nil
}
