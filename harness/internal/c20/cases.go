package c20

import (
	"encoding/json"
	"fmt"
	"math/rand"
	"os"
	"sort"
)

// Step is one step of a history on a real index: a batch, or a forced merge.
type Step struct {
	Ops   []Op `json:"ops,omitempty"`
	Merge bool `json:"merge,omitempty"`
}

func (o Op) MarshalJSON() ([]byte, error) {
	if o.Doc == nil {
		return json.Marshal(map[string]any{"id": o.ID, "delete": true})
	}
	return json.Marshal(map[string]any{"id": o.ID, "doc": o.Doc.norm()})
}

func (o *Op) UnmarshalJSON(b []byte) error {
	var t struct {
		ID     int  `json:"id"`
		Delete bool `json:"delete"`
		Doc    *Doc `json:"doc"`
	}
	if err := json.Unmarshal(b, &t); err != nil {
		return err
	}
	o.ID, o.Doc = t.ID, t.Doc
	if t.Delete {
		o.Doc = nil
	}
	return nil
}

// Case is a self-contained, replayable input: mapping, history, one query.
type Case struct {
	Kind    Kind   `json:"kind"`
	Names   Naming `json:"names"`
	Steps   []Step `json:"steps"`
	Variant int    `json:"variant"`
	Query   *Query `json:"query,omitempty"`
}

// Final returns the live documents after the history (last write wins).
func Final(steps []Step) map[int]Doc {
	cur := map[int]Doc{}
	for _, s := range steps {
		for _, op := range s.Ops {
			if op.Doc == nil {
				delete(cur, op.ID)
			} else {
				cur[op.ID] = op.Doc.norm()
			}
		}
	}
	return cur
}

func sortedIDs(m map[int]Doc) []int {
	ids := make([]int, 0, len(m))
	for id := range m {
		ids = append(ids, id)
	}
	sort.Ints(ids)
	return ids
}

// Play creates a fresh disk index under dir and applies the history.
func Play(dir string, k Kind, n Naming, steps []Step, variant int) (*Real, error) {
	r, err := OpenReal(dir, k, n)
	if err != nil {
		return nil, err
	}
	for i, s := range steps {
		if s.Merge {
			if err := r.ForceMerge(); err != nil {
				r.Close()
				return nil, fmt.Errorf("step %d force merge: %v", i, err)
			}
			continue
		}
		if err := r.Batch(s.Ops, variant+i); err != nil {
			r.Close()
			return nil, fmt.Errorf("step %d batch: %v", i, err)
		}
	}
	return r, nil
}

// decoyDoc matches most positive queries: every field carries every term in
// one element of every array. A parent that was given this version first and
// its real version later must answer as its real version only.
func decoyDoc(terms []int) Doc {
	return Doc{T: terms,
		A: []AElem{{X: terms, Y: terms, C: []CElem{{U: terms, V: terms}}}},
		B: []BElem{{Z: terms, W: terms}}}
}

// SpreadHistory turns a set of final documents into a seeded history that
// reaches exactly that set: documents are shuffled over several batches
// (several segments); some parents first get a decoy version in an earlier
// batch (update across segments); ghost parents are created and deleted
// again (and some re-created from a decoy); merges are forced in the middle
// and/or at the end.
func SpreadHistory(rng *rand.Rand, final map[int]Doc, terms []int) []Step {
	ids := sortedIDs(final)
	rng.Shuffle(len(ids), func(i, j int) { ids[i], ids[j] = ids[j], ids[i] })
	nb := 1 + rng.Intn(4)
	if len(ids) < nb {
		nb = 1
	}
	batches := make([][]Op, nb+2) // batch 0: decoys and ghosts; last: ghost deletes
	decoy := decoyDoc(terms)
	for i, id := range ids {
		d := final[id]
		dc := d
		b := 1 + i%nb
		switch rng.Intn(6) {
		case 0: // older decoy version, replaced later
			dd := decoy
			batches[0] = append(batches[0], Op{ID: id, Doc: &dd})
		case 1: // created, deleted, re-created
			dd := decoy
			batches[0] = append(batches[0], Op{ID: id, Doc: &dd})
			if b+1 < len(batches) {
				batches[b] = append(batches[b], Op{ID: id})
				b++
			}
		}
		batches[b] = append(batches[b], Op{ID: id, Doc: &dc})
	}
	ghosts := rng.Intn(3)
	for g := 0; g < ghosts; g++ {
		id := 900000 + g
		dd := decoy
		at := rng.Intn(nb + 1)
		del := at + 1 + rng.Intn(len(batches)-at-1)
		batches[at] = append(batches[at], Op{ID: id, Doc: &dd})
		batches[del] = append(batches[del], Op{ID: id})
	}
	var steps []Step
	midMerge := rng.Intn(3) == 0
	for i, ops := range batches {
		if len(ops) == 0 {
			continue
		}
		// a batch cannot carry two operations on one id: split
		seen := map[int]bool{}
		var cur []Op
		for _, op := range ops {
			if seen[op.ID] {
				steps = append(steps, Step{Ops: cur})
				cur, seen = nil, map[int]bool{}
			}
			seen[op.ID] = true
			cur = append(cur, op)
		}
		steps = append(steps, Step{Ops: cur})
		if midMerge && i == len(batches)/2 {
			steps = append(steps, Step{Merge: true})
		}
	}
	if rng.Intn(3) == 0 {
		steps = append(steps, Step{Merge: true})
	}
	return steps
}

func saveJSON(path string, v any) error {
	b, err := json.MarshalIndent(v, "", " ")
	if err != nil {
		return err
	}
	return os.WriteFile(path, b, 0o644)
}
