package c20

import (
	"math/rand"
)

// ---- seeded generators for Engine B (bigger than what TLC enumerates)

var allFields = []string{"t", "x", "y", "u", "v", "z", "w"}

func randTerms(rng *rand.Rand, nterms int) []int {
	// boundary-biased: mostly empty or one term, sometimes two
	switch r := rng.Intn(10); {
	case r < 4:
		return []int{}
	case r < 8:
		return []int{1 + rng.Intn(nterms)}
	default:
		a, b := 1+rng.Intn(nterms), 1+rng.Intn(nterms)
		if a == b {
			return []int{a}
		}
		return []int{a, b}
	}
}

func randLen(rng *rand.Rand, max int) int {
	// empty arrays, one element and many elements all matter
	switch r := rng.Intn(10); {
	case r < 2:
		return 0
	case r < 5:
		return 1
	default:
		return 1 + rng.Intn(max)
	}
}

// RandDoc draws a tree: up to maxA a-elements with up to maxC c-elements
// each, up to maxB b-elements, terms 1..nterms.
func RandDoc(rng *rand.Rand, nterms, maxA, maxC, maxB int) Doc {
	d := Doc{T: randTerms(rng, nterms), A: []AElem{}, B: []BElem{}}
	for i, n := 0, randLen(rng, maxA); i < n; i++ {
		a := AElem{X: randTerms(rng, nterms), Y: randTerms(rng, nterms), C: []CElem{}}
		for j, m := 0, randLen(rng, maxC); j < m; j++ {
			a.C = append(a.C, CElem{U: randTerms(rng, nterms), V: randTerms(rng, nterms)})
		}
		d.A = append(d.A, a)
	}
	for k, n := 0, randLen(rng, maxB); k < n; k++ {
		d.B = append(d.B, BElem{Z: randTerms(rng, nterms), W: randTerms(rng, nterms)})
	}
	return d
}

type qgen struct {
	rng    *rand.Rand
	nterms int
	// risky: also boolean must-not / should minimum / disjunction minimum
	// clauses (whose clauses may span several contexts)
	risky bool
}

func (g *qgen) leaf() Query {
	if g.rng.Intn(12) == 0 {
		return Query{Op: "all"}
	}
	return Query{Op: "term", F: allFields[g.rng.Intn(len(allFields))], V: 1 + g.rng.Intn(g.nterms)}
}

// sameArrayLeaves returns n term leaves on fields of one array (the
// element-boundary case the property is about).
func (g *qgen) sameArrayLeaves(n int) []Query {
	groups := [][]string{{"x", "y"}, {"u", "v"}, {"z", "w"}, {"x", "y", "u", "v"}}
	fs := groups[g.rng.Intn(len(groups))]
	out := make([]Query, n)
	wrap := g.rng.Intn(3) == 0
	for i := range out {
		out[i] = Query{Op: "term", F: fs[g.rng.Intn(len(fs))], V: 1 + g.rng.Intn(g.nterms)}
		if wrap {
			// the leaf wrapped in a one-armed disjunction (what a query builder emits): same meaning
			out[i] = Query{Op: "disj", Qs: []Query{out[i]}, Min: g.rng.Intn(2)}
		}
	}
	return out
}

func (g *qgen) list(depth, min, max int) []Query {
	n := min + g.rng.Intn(max-min+1)
	if depth <= 1 && g.rng.Intn(3) == 0 {
		return g.sameArrayLeaves(n)
	}
	out := make([]Query, n)
	for i := range out {
		out[i] = g.query(depth - 1)
	}
	return out
}

func (g *qgen) query(depth int) Query {
	if depth <= 0 {
		return g.leaf()
	}
	r := g.rng.Intn(10)
	switch {
	case r < 2:
		return g.leaf()
	case r < 6:
		return Query{Op: "conj", Qs: g.list(depth, 2, 3)}
	case r < 8:
		q := Query{Op: "disj", Qs: g.list(depth, 2, 3)}
		if g.risky && g.rng.Intn(2) == 0 {
			q.Min = 2
		} else if g.rng.Intn(3) == 0 {
			q.Min = 1
		}
		return q
	default:
		q := Query{Op: "bool"}
		if g.risky {
			switch g.rng.Intn(4) {
			case 0:
				q.MustNot = g.list(depth, 1, 2)
			case 1:
				q.Must = g.list(depth, 1, 2)
				q.MustNot = g.list(depth, 1, 1)
			case 2:
				q.Must = g.list(depth, 1, 2)
				q.Should = g.list(depth, 1, 2)
				q.Min = 1
			default:
				q.Must = g.list(depth, 1, 1)
				q.Should = g.list(depth, 1, 2)
				q.MustNot = g.list(depth, 1, 1)
				q.Min = g.rng.Intn(2)
			}
			return q
		}
		// plain positive boolean: must with optional should, or should only
		if g.rng.Intn(3) == 0 {
			q.Should = g.list(depth, 1, 3)
			q.Min = g.rng.Intn(2)
		} else {
			q.Must = g.list(depth, 1, 2)
			if g.rng.Intn(2) == 0 {
				q.Should = g.list(depth, 1, 2)
			}
		}
		return q
	}
}

// ---- the query class, computed here only to split records into judge
// batches; TLC recomputes it (Nested!QClass) and rejects a record whose
// `cls` disagrees (JudgeNested!ClassAgrees).

func hostCtx(f string, k Kind) string {
	switch f {
	case "t":
		return "r"
	case "x", "y":
		if k.Has("a") {
			return "a"
		}
		return "r"
	case "u", "v":
		if k.Has("c") {
			return "c"
		}
		if k.Has("a") {
			return "a"
		}
		return "r"
	default:
		if k.Has("b") {
			return "b"
		}
		return "r"
	}
}

func codeCtxs(q Query, k Kind, into map[string]bool) {
	all := func() {
		into["r"] = true
		for _, a := range k {
			into[a] = true
		}
	}
	switch q.Op {
	case "term":
		into[hostCtx(q.F, k)] = true
	case "all":
		all()
	case "bool":
		if len(q.Must) == 0 && len(q.Should) == 0 {
			all()
		}
	}
	for _, l := range [][]Query{q.Qs, q.Must, q.Should, q.MustNot} {
		for _, x := range l {
			codeCtxs(x, k, into)
		}
	}
}

// ClassOf mirrors Nested!QClass.
func ClassOf(q Query, k Kind) string {
	riskyBool, riskyDisj := false, false
	var walk func(q Query)
	walk = func(q Query) {
		cs := map[string]bool{}
		codeCtxs(q, k, cs)
		if q.Op == "bool" && len(cs) >= 2 &&
			(len(q.MustNot) > 0 || (len(q.Should) > 0 && (q.Min >= 2 || (q.Min >= 1 && len(q.Must) > 0)))) {
			riskyBool = true
		}
		if q.Op == "disj" && q.Min >= 2 && len(cs) >= 2 {
			riskyDisj = true
		}
		for _, l := range [][]Query{q.Qs, q.Must, q.Should, q.MustNot} {
			for _, x := range l {
				walk(x)
			}
		}
	}
	walk(q)
	if riskyBool {
		return "boolx"
	}
	if riskyDisj {
		return "disjx"
	}
	return "core"
}
