package c20

import (
	"encoding/json"
	"fmt"
	"hash/fnv"
	"log"
	"math/rand"
	"os"
	"sort"
	"strings"
	"sync"
	"time"

	"verif/harness/internal/core"
	"verif/harness/internal/tlaval"
	"verif/harness/internal/tlc"
)

func init() {
	core.Register(&core.Check{Prop: "C20", Level: "model_checking", Run: run, Replay: replay})
}

const workers = 12

// ---- verdict plumbing

// violation signatures: C20/<property clause>/<query class>[/<input class>]
func sig(clause, cls string, extra ...string) string {
	s := "C20/" + clause + "/" + cls
	for _, e := range extra {
		s += "/" + e
	}
	return s
}

type failure struct {
	Clause string
	What   string
}

// compare checks one real observation against the expectation the
// specification computed (set of parent ids). Returns nil when every clause
// of the property holds.
func compare(obs Observed, want map[int]bool) *failure {
	if obs.Err != "" {
		return &failure{"SearchCompletes", obs.Err}
	}
	got, dup, sub := obs.parentSet()
	if sub {
		return &failure{"HitsAreParents", fmt.Sprintf("hits contain ids of nested elements: %v", obs.Hits)}
	}
	if dup {
		return &failure{"HitsOnce", fmt.Sprintf("a parent is returned twice: %v", obs.Hits)}
	}
	if obs.Total != len(obs.Hits) {
		return &failure{"TotalCountsParents", fmt.Sprintf("Total=%d but %d hits", obs.Total, len(obs.Hits))}
	}
	var missing, extra []int
	for id := range want {
		if !got[id] {
			missing = append(missing, id)
		}
	}
	for id := range got {
		if !want[id] {
			extra = append(extra, id)
		}
	}
	if len(missing)+len(extra) > 0 {
		sort.Ints(missing)
		sort.Ints(extra)
		return &failure{"HitsEqualMeaning", fmt.Sprintf("missing parents %v, unexpected parents %v", missing, extra)}
	}
	return nil
}

type stats struct {
	mu       sync.Mutex
	layouts  map[string]int
	segsSeen map[int]int
	merges   int
}

func (s *stats) note(l Layout, merged bool) {
	s.mu.Lock()
	s.segsSeen[l.Segments]++
	if merged {
		s.merges++
	}
	s.mu.Unlock()
}

type runner struct {
	c   *core.Ctx
	st  *stats
	sem chan struct{} // bounds the number of real indexes open at a time
}

func hash64(s string) int64 {
	h := fnv.New64a()
	h.Write([]byte(s))
	return int64(h.Sum64() & 0x7fffffffffffffff)
}

// checkIndexLevel compares DocCount, match_all and the sub-document
// bookkeeping of a real index with the live documents the model says exist.
// `final` is the model's content.
func (r *runner) checkIndexLevel(real *Real, final map[int]Doc, cs Case, cls string, merged bool) {
	c := r.c
	want := map[int]bool{}
	nodes := 0
	for id, d := range final {
		want[id] = true
		nodes += d.SubDocs(real.Kind)
	}
	dc, err := real.DocCount()
	if err != nil {
		c.Inconclusive("DocCount: " + err.Error())
		return
	}
	if dc != len(final) {
		c.Violation(sig("DocCountCountsParents", cls), fmt.Sprintf("DocCount=%d, live parents=%d (kind %s)", dc, len(final), real.Kind), cs)
	}
	all := Query{Op: "all"}
	obs := real.Search(all, len(final)+nodes+50)
	if f := compare(obs, want); f != nil {
		cs2 := cs
		cs2.Query = &all
		c.Violation(sig("MatchAll"+f.Clause, cls), fmt.Sprintf("match_all on kind %s: %s", real.Kind, f.What), cs2)
	}
	// a page smaller than the result: Total still counts all parents
	if len(final) > 1 {
		one := real.Search(all, 1)
		if one.Err == "" && (one.Total != len(final) || len(one.Hits) != 1 || one.Hits[0].Sub || !want[one.Hits[0].ID]) {
			cs2 := cs
			cs2.Query = &all
			c.Violation(sig("MatchAllTotalCountsParents", cls), fmt.Sprintf("match_all with Size=1 on kind %s: Total=%d hits=%v, live parents=%d", real.Kind, one.Total, one.Hits, len(final)), cs2)
		}
	}
	l, err := real.Layout()
	if err != nil {
		c.Inconclusive("layout: " + err.Error())
		return
	}
	r.st.note(l, merged)
	if l.Live != nodes {
		// not an observable of the property by itself: conformance only
		c.Drift(fmt.Sprintf("live sub-documents in segments = %d, model has %d (kind %s, %d segments)", l.Live, nodes, real.Kind, l.Segments))
	}
}

// ---- Engine A, inputs: the dump of NestedQuery

type qcase struct {
	kind string
	q    Query
	qkey string
	d    Doc
	dkey string
	exp  bool
	cls  string
}

type qgroup struct {
	kind    string
	fs      string
	docs    []Doc          // index = id-1
	docID   map[string]int // dkey -> id
	queries map[string]*gq
}

type gq struct {
	q    Query
	cls  string
	want map[int]bool
	n    int
}

func (r *runner) engineAQuery(cfg string, tlcWorkers int) error {
	c := r.c
	groups := map[string]*qgroup{}
	nstates := 0
	res, err := tlc.DumpStates(c.TLCOpts("NestedQuery", cfg, core.Workers(tlcWorkers), core.Timeout(25*time.Minute)), func(st tlaval.State) error {
		if tlaval.Str(st["ph"]) != "case" {
			return nil
		}
		nstates++
		q := QueryFromTLA(st["q"])
		d := DocFromTLA(st["d"])
		kind := tlaval.Str(st["kn"])
		qb, _ := json.Marshal(q)
		db, _ := json.Marshal(d)
		gk := kind + "|" + strings.Join(q.Fields(), ",")
		g := groups[gk]
		if g == nil {
			g = &qgroup{kind: kind, fs: strings.Join(q.Fields(), ","), docID: map[string]int{}, queries: map[string]*gq{}}
			groups[gk] = g
		}
		id, ok := g.docID[string(db)]
		if !ok {
			g.docs = append(g.docs, d)
			id = len(g.docs)
			g.docID[string(db)] = id
		}
		e := g.queries[string(qb)]
		if e == nil {
			e = &gq{q: q, cls: tlaval.Str(st["cls"]), want: map[int]bool{}}
			g.queries[string(qb)] = e
		}
		e.n++
		if tlaval.Bool(st["exp"]) {
			e.want[id] = true
		}
		if d.Elements() > 0 {
			c.Distinct("q|" + kind + "|" + string(qb) + "|" + string(db))
		}
		return nil
	})
	c.Account("NestedQuery", cfg, "exhaustive+dump", res)
	if err != nil {
		return fmt.Errorf("NestedQuery/%s dump: %v", cfg, err)
	}
	if res == nil || !res.OK {
		txt := ""
		if res != nil {
			txt = res.ErrorText
		}
		return fmt.Errorf("NestedQuery/%s: the model did not pass: %.600s", cfg, txt)
	}
	c.Logf("model NestedQuery/%s: %d distinct states, %d cases in %d groups, %.1fs", cfg, res.Distinct, nstates, len(groups), res.Wall.Seconds())

	// completeness of the grouping: every query of a group was evaluated on
	// every tree of the group
	for gk, g := range groups {
		for qk, e := range g.queries {
			if e.n != len(g.docs) {
				return fmt.Errorf("group %s query %s: %d cases for %d trees", gk, qk, e.n, len(g.docs))
			}
		}
	}

	keys := make([]string, 0, len(groups))
	for k := range groups {
		keys = append(keys, k)
	}
	sort.Strings(keys)
	var wg sync.WaitGroup
	sem := r.sem
	var sampled sync.Once
	for _, gk := range keys {
		g := groups[gk]
		wg.Add(1)
		sem <- struct{}{}
		go func(gk string, g *qgroup) {
			defer wg.Done()
			defer func() { <-sem }()
			rng := rand.New(rand.NewSource(c.Seed*1000003 + hash64(gk)))
			final := map[int]Doc{}
			for i, d := range g.docs {
				final[i+1] = d
			}
			kind := KindByName(g.kind)
			cs := Case{Kind: kind, Names: PlainNames, Steps: SpreadHistory(rng, final, []int{1}), Variant: rng.Intn(6)}
			real, err := Play(c.TempDir("aq"), kind, PlainNames, cs.Steps, cs.Variant)
			if err != nil {
				c.Inconclusive("engine A index build: " + err.Error())
				return
			}
			defer func() { real.Close(); os.RemoveAll(real.Dir) }()
			merged := len(cs.Steps) > 0 && cs.Steps[len(cs.Steps)-1].Merge
			r.checkIndexLevel(real, final, cs, "core", merged)
			qks := make([]string, 0, len(g.queries))
			for qk := range g.queries {
				qks = append(qks, qk)
			}
			sort.Strings(qks)
			size := len(g.docs)*8 + 100
			for _, qk := range qks {
				e := g.queries[qk]
				obs := real.Search(e.q, size)
				c.Eval(len(g.docs))
				if f := compare(obs, e.want); f != nil {
					cs2 := cs
					qq := e.q
					cs2.Query = &qq
					c.Violation(sig(f.Clause, e.cls), fmt.Sprintf("kind %s query %s: %s", kind, e.q, f.What),
						map[string]any{"case": cs2, "expected_parents": keysOf(e.want), "observed": obs})
				}
			}
			sampled.Do(func() {
				e := g.queries[qks[len(qks)/2]]
				c.Sample(map[string]any{"engine": "A/query", "kind": g.kind, "query": e.q.String(), "trees": len(g.docs), "expected_parents": len(e.want), "steps": len(cs.Steps)})
			})
		}(gk, g)
	}
	wg.Wait()
	return nil
}

func keysOf(m map[int]bool) []int {
	out := make([]int, 0, len(m))
	for k := range m {
		out = append(out, k)
	}
	sort.Ints(out)
	return out
}

// ---- Engine A, histories: the dump of NestedIndex with the history kept

type hcase struct {
	kind  string
	steps []Step
	dc    int
	live  map[int]bool
	hits  []map[int]bool
	key   string
}

func idSet(v any) map[int]bool {
	out := map[int]bool{}
	for _, e := range tlaval.List(v) {
		out[tlaval.Int(e)] = true
	}
	return out
}

func (r *runner) engineAHistory(cfg string, tlcWorkers int) error {
	c := r.c
	var cases []hcase
	var versions []Doc
	var probes []Query
	res, err := tlc.DumpStates(c.TLCOpts("NestedIndex", cfg, core.Workers(tlcWorkers), core.Timeout(25*time.Minute)), func(st tlaval.State) error {
		hist := tlaval.List(st["hist"])
		if len(hist) < 2 { // only the constants record: nothing happened yet
			return nil
		}
		if versions == nil {
			for _, v := range tlaval.List(tlaval.Field(hist[0], "versions")) {
				versions = append(versions, DocFromTLA(v))
			}
			probes = queries(tlaval.Field(hist[0], "probes"))
		}
		hc := hcase{kind: tlaval.Str(st["kn"])}
		for _, a := range hist[1:] {
			switch tlaval.Str(tlaval.Field(a, "op")) {
			case "batch":
				ops := tlaval.Map(tlaval.Field(a, "ops"))
				ids := make([]string, 0, len(ops))
				for k := range ops {
					ids = append(ids, k)
				}
				sort.Strings(ids)
				var s Step
				for _, k := range ids {
					var id int
					fmt.Sscanf(k, "%d", &id)
					v := tlaval.Int(ops[k])
					if v == 0 {
						s.Ops = append(s.Ops, Op{ID: id})
					} else {
						d := versions[v-1]
						s.Ops = append(s.Ops, Op{ID: id, Doc: &d})
					}
				}
				hc.steps = append(hc.steps, s)
			case "merge":
				hc.steps = append(hc.steps, Step{Merge: true})
			}
		}
		exp := st["exp"]
		hc.dc = tlaval.Int(tlaval.Field(exp, "dc"))
		hc.live = idSet(tlaval.Field(exp, "live"))
		for _, h := range tlaval.List(tlaval.Field(exp, "hits")) {
			hc.hits = append(hc.hits, idSet(h))
		}
		b, _ := json.Marshal(hc.steps)
		hc.key = "h|" + hc.kind + "|" + string(b)
		cases = append(cases, hc)
		return nil
	})
	c.Account("NestedIndex", cfg, "exhaustive+dump", res)
	if err != nil {
		return fmt.Errorf("NestedIndex/%s dump: %v", cfg, err)
	}
	if res == nil || !res.OK {
		return fmt.Errorf("NestedIndex/%s: the model did not pass: %.600s", cfg, res.ErrorText)
	}
	c.Logf("model NestedIndex/%s: %d histories (%d distinct states), %.1fs", cfg, len(cases), res.Distinct, res.Wall.Seconds())
	var wg sync.WaitGroup
	sem := r.sem
	for i := range cases {
		hc := cases[i]
		wg.Add(1)
		sem <- struct{}{}
		go func(i int, hc hcase) {
			defer wg.Done()
			defer func() { <-sem }()
			kind := KindByName(hc.kind)
			cs := Case{Kind: kind, Names: PlainNames, Steps: hc.steps, Variant: int((c.Seed + int64(i)) % 6)}
			real, err := Play(c.TempDir("ah"), kind, PlainNames, cs.Steps, cs.Variant)
			if err != nil {
				c.Inconclusive("engine A history replay: " + err.Error())
				return
			}
			defer func() { real.Close(); os.RemoveAll(real.Dir) }()
			final := Final(hc.steps)
			if len(final) != hc.dc || len(hc.live) != hc.dc {
				c.Inconclusive(fmt.Sprintf("history replay bookkeeping: model dc=%d, harness final=%d", hc.dc, len(final)))
				return
			}
			merged := hc.steps[len(hc.steps)-1].Merge
			r.checkIndexLevel(real, final, cs, "core", merged)
			for p, q := range probes {
				obs := real.Search(q, 100)
				if f := compare(obs, hc.hits[p]); f != nil {
					cs2 := cs
					qq := q
					cs2.Query = &qq
					c.Violation(sig(f.Clause, "core", "history"), fmt.Sprintf("kind %s after %d steps, query %s: %s", kind, len(hc.steps), q, f.What),
						map[string]any{"case": cs2, "expected_parents": keysOf(hc.hits[p]), "observed": obs})
				}
			}
			c.Eval(1 + len(probes))
			c.Distinct(hc.key)
			if i == len(cases)/2 {
				c.Sample(map[string]any{"engine": "A/history", "kind": hc.kind, "steps": hc.steps, "expected_doccount": hc.dc})
			}
		}(i, hc)
	}
	wg.Wait()
	c.Traces(len(cases))
	return nil
}

// ---- the configurations in which TLC is expected to separate the as-coded
// model from the meaning (query classes with an open finding). The
// counterexample is replayed on the real code; only a reproduced real
// difference is reported.

func (r *runner) gapConfig(cfg string) {
	c := r.c
	res, err := c.RunTLC("gap-exhaustive", "NestedQuery", cfg, core.Workers(2), core.Timeout(10*time.Minute))
	if err != nil {
		c.Inconclusive(fmt.Sprintf("TLC NestedQuery/%s: %v", cfg, err))
		return
	}
	if res.Violated == "" {
		if res.OK {
			c.Logf("gap config %s: the as-coded model satisfies the meaning for this class (no counterexample)", cfg)
			c.Extra("gap_"+cfg, "no counterexample")
			return
		}
		c.Inconclusive(fmt.Sprintf("TLC NestedQuery/%s failed: %.400s", cfg, res.ErrorText))
		return
	}
	if len(res.CounterEx) == 0 {
		c.Inconclusive("gap config " + cfg + ": counterexample not parsable")
		return
	}
	st := res.CounterEx[len(res.CounterEx)-1].State
	q, d, kn := QueryFromTLA(st["q"]), DocFromTLA(st["d"]), tlaval.Str(st["kn"])
	kind := KindByName(kn)
	want := map[int]bool{}
	if tlaval.Bool(st["exp"]) {
		want[1] = true
	}
	cs := Case{Kind: kind, Names: PlainNames, Steps: []Step{{Ops: []Op{{ID: 1, Doc: &d}}}}, Query: &q}
	real, err := Play(c.TempDir("gap"), kind, PlainNames, cs.Steps, 0)
	if err != nil {
		c.Inconclusive("gap replay: " + err.Error())
		return
	}
	defer real.Close()
	obs := real.Search(q, 50)
	c.Eval(1)
	cls := tlaval.Str(st["cls"])
	out := map[string]any{"invariant": res.Violated, "kind": kn, "query": q.String(), "tree": d, "class": cls}
	if f := compare(obs, want); f != nil {
		out["reproduced_on_real_code"] = true
		c.Violation(sig(f.Clause, cls), fmt.Sprintf("TLC counterexample of %s reproduced: kind %s query %s: %s", res.Violated, kind, q, f.What),
			map[string]any{"case": cs, "expected_parents": keysOf(want), "observed": obs})
	} else {
		out["reproduced_on_real_code"] = false
		c.Drift(fmt.Sprintf("as-coded model differs from the real code for %s (class %s): model counterexample not reproduced", q, cls))
	}
	c.Extra("gap_"+cfg, out)
}

// ---- Engine B: seeded random cases, judged by TLC

type brec struct {
	rec map[string]any
	cs  Case
	obs Observed
	cls string
	key string
}

func (r *runner) engineB(nIndexes, qPerIndex int, names Naming, tag string, riskyShare int) ([]brec, error) {
	c := r.c
	var mu sync.Mutex
	var recs []brec
	var wg sync.WaitGroup
	sem := r.sem
	for i := 0; i < nIndexes; i++ {
		wg.Add(1)
		sem <- struct{}{}
		go func(i int) {
			defer wg.Done()
			defer func() { <-sem }()
			rng := rand.New(rand.NewSource(c.Seed*7919 + int64(i)*104729 + hash64(tag)))
			kind := AllKinds[rng.Intn(len(AllKinds))]
			if rng.Intn(3) == 0 || names != PlainNames {
				kind = Kind{"a", "b", "c"}
			}
			nterms := 2 + rng.Intn(2)
			ndocs := 3 + rng.Intn(10)
			final := map[int]Doc{}
			for k := 0; k < ndocs; k++ {
				final[1+k] = RandDoc(rng, nterms, 3, 2, 2).norm()
			}
			terms := []int{}
			for t := 1; t <= nterms; t++ {
				terms = append(terms, t)
			}
			cs := Case{Kind: kind, Names: names, Steps: SpreadHistory(rng, final, terms), Variant: rng.Intn(6)}
			var fixed []Query
			if names != PlainNames && i == 0 {
				// the smallest case of the name-prefix class, always present
				d := Doc{A: []AElem{{X: []int{1}}}, B: []BElem{{Z: []int{1}}}}.norm()
				final = map[int]Doc{1: d}
				cs.Steps = []Step{{Ops: []Op{{ID: 1, Doc: &d}}}}
				fixed = []Query{{Op: "all"}, {Op: "conj", Qs: []Query{{Op: "term", F: "x", V: 1}, {Op: "term", F: "z", V: 1}}}}
			}
			real, err := Play(c.TempDir("b"), kind, names, cs.Steps, cs.Variant)
			if err != nil {
				c.Inconclusive("engine B index build: " + err.Error())
				return
			}
			defer func() { real.Close(); os.RemoveAll(real.Dir) }()
			merged := cs.Steps[len(cs.Steps)-1].Merge
			r.checkIndexLevel(real, final, cs, "core", merged)
			dc, _ := real.DocCount()
			docsJSON := []any{}
			nodes := 0
			for _, id := range sortedIDs(final) {
				docsJSON = append(docsJSON, map[string]any{"id": id, "doc": final[id]})
				nodes += final[id].SubDocs(kind)
			}
			g := &qgen{rng: rng, nterms: nterms}
			for k := 0; k < qPerIndex; k++ {
				g.risky = rng.Intn(100) < riskyShare
				var q Query
				if k < len(fixed) {
					q = fixed[k]
				} else if k == 0 {
					q = Query{Op: "all"}
				} else {
					q = g.query(1 + rng.Intn(3))
					if q.Op == "term" && rng.Intn(2) == 0 {
						q = Query{Op: "conj", Qs: g.sameArrayLeaves(2)}
					}
				}
				obs := real.Search(q, nodes+100)
				c.Eval(1)
				cs2 := cs
				qq := q
				cs2.Query = &qq
				cls := ClassOf(q, kind)
				if obs.Err != "" {
					c.Violation(sig("SearchCompletes", cls), fmt.Sprintf("kind %s query %s: %s", kind, q, obs.Err), map[string]any{"case": cs2})
					continue
				}
				hits := []any{}
				for _, h := range obs.Hits {
					hits = append(hits, map[string]any{"id": h.ID, "sub": h.Sub})
				}
				rec := map[string]any{"kind": []string(kind), "docs": docsJSON, "q": q, "cls": cls,
					"hits": hits, "total": obs.Total, "docCount": dc}
				mu.Lock()
				recs = append(recs, brec{rec: rec, cs: cs2, obs: obs, cls: cls})
				mu.Unlock()
			}
		}(i)
	}
	wg.Wait()
	// deterministic order
	for i := range recs {
		b, _ := json.Marshal(recs[i].rec)
		recs[i].key = string(b)
	}
	sort.SliceStable(recs, func(i, j int) bool { return recs[i].key < recs[j].key })
	return recs, nil
}

// judge hands records to TLC (JudgeNested) and reports every rejected one.
func (r *runner) judge(recs []brec, maxFail int, extra ...string) error {
	c := r.c
	if len(recs) == 0 {
		return nil
	}
	header := map[string]any{"header": 1}
	list := make([]any, 0, len(recs)+1)
	list = append(list, header)
	for i := range recs {
		list = append(list, recs[i].rec)
		c.Distinct("b|" + recs[i].key)
	}
	bad1, err := c.JudgeRecords("JudgeNested", "JudgeNested.cfg", list, maxFail, core.Timeout(20*time.Minute))
	if err != nil {
		return fmt.Errorf("judge: %v", err)
	}
	c.Traces(1)
	if len(bad1) == 0 {
		return nil
	}
	bad := map[int]string{}
	for i, inv := range bad1 {
		bad[i-1] = inv
	}
	// label: does the as-coded model explain the rejected observations?
	idxs := make([]int, 0, len(bad))
	for i := range bad {
		idxs = append(idxs, i)
	}
	sort.Ints(idxs)
	sub := []any{header}
	for _, i := range idxs {
		sub = append(sub, recs[i].rec)
	}
	coded1, err := c.JudgeRecords("JudgeNested", "JudgeNested_coded.cfg", sub, len(sub)+1, core.Timeout(10*time.Minute))
	if err != nil {
		return fmt.Errorf("judge (as-coded labelling): %v", err)
	}
	coded := map[int]string{}
	for i, inv := range coded1 {
		coded[i-1] = inv
	}
	for k, i := range idxs {
		inv := bad[i]
		b := recs[i]
		if inv == "ClassAgrees" {
			c.Inconclusive(fmt.Sprintf("harness and specification disagree on the class of %s (harness: %s)", b.cs.Query, b.cls))
			continue
		}
		clause, cls := inv, b.cls
		if strings.HasPrefix(inv, "HitsEqualMeaning_") {
			clause, cls = "HitsEqualMeaning", strings.TrimPrefix(inv, "HitsEqualMeaning_")
		}
		explained := "the as-coded model (Nested!AlgHits) predicts this answer"
		if _, differs := coded[k]; differs {
			explained = "the as-coded model does not predict this answer either"
		}
		c.Violation(sig(clause, cls, extra...), fmt.Sprintf("TLC rejected a real search (%s): kind %s query %s returned %v total=%d; %s",
			inv, b.cs.Kind, b.cs.Query, b.obs.Hits, b.obs.Total, explained), map[string]any{"case": b.cs, "observed": b.obs, "record": b.rec})
	}
	return nil
}

func split(recs []brec) (coreRecs, gapRecs []brec) {
	for _, b := range recs {
		if b.cls == "core" {
			coreRecs = append(coreRecs, b)
		} else {
			gapRecs = append(gapRecs, b)
		}
	}
	return
}

// logCounter swallows what bleve writes to the standard logger (file
// removal races of the persister/merger are reported there; they are the
// subject of C12) and counts the lines.
type logCounter struct {
	mu sync.Mutex
	n  int
}

func (l *logCounter) Write(p []byte) (int, error) {
	l.mu.Lock()
	l.n++
	l.mu.Unlock()
	return len(p), nil
}

func run(c *core.Ctx) error {
	lc := &logCounter{}
	log.SetOutput(lc)
	defer func() { c.Extra("bleve_log_lines_swallowed", lc.n) }()
	r := &runner{c: c, st: &stats{layouts: map[string]int{}, segsSeen: map[int]int{}}, sem: make(chan struct{}, workers)}
	tier := "quick"
	if c.Thorough() {
		tier = "thorough"
	}
	c.SetRule("distinct = (mapping kind, query, tree with at least one array element) triples enumerated by TLC and replayed on real scorch indexes + distinct TLC-enumerated histories replayed + distinct random (index content, kind, query, answer) records judged by TLC")
	c.SetExhaustive(false)
	c.Assume("zapx (segment format, edge list, merge) and roaring are trusted components; their observable contract is exercised through scorch")
	c.Assume("keyword analyzer: analysis is the identity on the small-integer terms")
	c.Assume("TLC exhaustiveness holds for the bounds of the configurations named in tlc_runs; larger trees, deeper queries and longer histories are sampled (Engine B)")
	c.Assume("concurrent merges racing with batches are the subject of C05, not modelled here: merges are atomic steps")

	var wg sync.WaitGroup
	var emu sync.Mutex
	var firstErr error
	fail := func(err error) {
		if err != nil {
			emu.Lock()
			if firstErr == nil {
				firstErr = err
			}
			emu.Unlock()
		}
	}
	// C20_ONLY=mc,aq,ah,b restricts a run to some phases (development aid;
	// the registered commands never set it)
	only := os.Getenv("C20_ONLY")
	phase := ""
	par := func(f func() error) {
		if only != "" && !strings.Contains(","+only+",", ","+phase+",") {
			return
		}
		wg.Add(1)
		go func() { defer wg.Done(); fail(f()) }()
	}
	if only != "" {
		c.Assume("partial run: C20_ONLY=" + only)
	}

	// 1. the model decides: the step-wise loops and the index part
	mcs := [][2]string{
		{"NestedJoin", "NestedJoin_mc_" + tier + ".cfg"},
		{"NestedFold", "NestedFold_mc_" + tier + ".cfg"},
		{"NestedIndex", "NestedIndex_mc_" + tier + ".cfg"},
	}
	if c.Thorough() {
		mcs = append(mcs, [2]string{"NestedJoin", "NestedJoin_mc_thorough3.cfg"})
	}
	phase = "mc"
	for _, mc := range mcs {
		mc := mc
		par(func() error {
			c.ModelCheck(mc[0], mc[1], core.Workers(c.Pick(2, 3)), core.Timeout(28*time.Minute))
			return nil
		})
	}

	// 2. Engine A: trees x kinds x query shapes (the dump is at the same time
	// the exhaustive check  as-coded = meaning  for the core class); then the
	// classes with open findings, enumerated without that invariant and
	// replayed like the others
	phase = "aq"
	par(func() error {
		if err := r.engineAQuery("NestedQuery_mc_"+tier+".cfg", c.Pick(5, 6)); err != nil {
			return err
		}
		return r.engineAQuery("NestedQuery_enum_gap.cfg", 2)
	})

	// 3. Engine A: histories; 4. TLC separates as-coded from meaning for the
	// open classes, the counterexample is replayed
	phase = "ah"
	par(func() error {
		hcfgs := []string{"NestedIndex_enum_quick.cfg", "NestedIndex_enum_quick1.cfg"}
		if c.Thorough() {
			hcfgs = []string{"NestedIndex_enum_thorough.cfg", "NestedIndex_enum_thorough1.cfg"}
		}
		for _, h := range hcfgs {
			if err := r.engineAHistory(h, c.Pick(2, 3)); err != nil {
				return err
			}
		}
		for _, g := range []string{"NestedQuery_gap_boolx.cfg", "NestedQuery_gap_disjx.cfg", "NestedQuery_gap_parents.cfg"} {
			r.gapConfig(g)
		}
		return nil
	})

	// 5. Engine B
	var coreRecs, gapRecs, ccore []brec
	phase = "b"
	par(func() error {
		recs, err := r.engineB(c.Pick(100, 900), c.Pick(10, 14), PlainNames, "plain", 12)
		if err != nil {
			return err
		}
		coreRecs, gapRecs = split(recs)
		if err := r.judge(coreRecs, 12); err != nil {
			return err
		}
		// the open classes are exhibited systematically by Engine A; here a
		// few random ones suffice
		if len(gapRecs) > 24 {
			gapRecs = gapRecs[:24]
		}
		if err := r.judge(gapRecs, 2); err != nil {
			return err
		}
		// sibling arrays whose names share a prefix ("a" / "ab")
		crecs, err := r.engineB(c.Pick(6, 20), 8, CollideNames, "collide", 0)
		if err != nil {
			return err
		}
		ccore, _ = split(crecs)
		return r.judge(ccore, 3, "array-name-prefix")
	})
	wg.Wait()
	if firstErr != nil {
		return firstErr
	}
	if len(coreRecs) > 0 {
		b := coreRecs[len(coreRecs)/3]
		c.Sample(map[string]any{"engine": "B", "record": b.rec})
	}
	r.st.mu.Lock()
	c.Extra("segments_at_search_time_histogram", r.st.segsSeen)
	c.Extra("indexes_force_merged_last", r.st.merges)
	r.st.mu.Unlock()
	c.Extra("engine_b_records", map[string]int{"core": len(coreRecs), "open_classes": len(gapRecs), "name_prefix": len(ccore)})
	return nil
}

// replay re-executes a saved case and prints what the real code answers.
func replay(c *core.Ctx, path string) error {
	b, err := os.ReadFile(path)
	if err != nil {
		return err
	}
	var f struct {
		Signature string `json:"signature"`
		What      string `json:"what"`
		Replay    struct {
			Case     Case  `json:"case"`
			Expected []int `json:"expected_parents"`
		} `json:"replay"`
	}
	if err := json.Unmarshal(b, &f); err != nil {
		return err
	}
	cs := f.Replay.Case
	if cs.Names == (Naming{}) {
		cs.Names = PlainNames
	}
	real, err := Play(c.TempDir("replay"), cs.Kind, cs.Names, cs.Steps, cs.Variant)
	if err != nil {
		return err
	}
	defer real.Close()
	dc, _ := real.DocCount()
	fmt.Printf("replay %s\n  %s\n  kind=%s steps=%d live parents=%d DocCount=%d\n", f.Signature, f.What, cs.Kind, len(cs.Steps), len(Final(cs.Steps)), dc)
	c.Eval(1)
	c.Sample(map[string]any{"replay": path})
	c.SetRule("replay of one saved case")
	if cs.Query == nil {
		return nil
	}
	obs := real.Search(*cs.Query, 10000)
	fmt.Printf("  query %s\n  observed hits=%v total=%d err=%q\n  expected parents=%v\n", cs.Query, obs.Hits, obs.Total, obs.Err, f.Replay.Expected)
	if f.Replay.Expected != nil {
		want := map[int]bool{}
		for _, id := range f.Replay.Expected {
			want[id] = true
		}
		if fl := compare(obs, want); fl != nil {
			c.Violation(f.Signature, "replayed: "+fl.What, f.Replay)
		}
		return nil
	}
	// a case that TLC judged: judge the fresh observation again
	if obs.Err != "" {
		c.Violation(f.Signature, "replayed: "+obs.Err, f.Replay)
		return nil
	}
	final := Final(cs.Steps)
	docsJSON := []any{}
	for _, id := range sortedIDs(final) {
		docsJSON = append(docsJSON, map[string]any{"id": id, "doc": final[id]})
	}
	hits := []any{}
	for _, h := range obs.Hits {
		hits = append(hits, map[string]any{"id": h.ID, "sub": h.Sub})
	}
	rec := map[string]any{"kind": []string(cs.Kind), "docs": docsJSON, "q": *cs.Query, "cls": ClassOf(*cs.Query, cs.Kind),
		"hits": hits, "total": obs.Total, "docCount": dc}
	bad, err := c.JudgeRecords("JudgeNested", "JudgeNested.cfg", []any{map[string]any{"header": 1}, rec}, 1)
	if err != nil {
		return err
	}
	c.Traces(1)
	if inv, rejected := bad[1]; rejected {
		fmt.Printf("  TLC rejects the replayed observation: %s\n", inv)
		c.Violation(f.Signature, "replayed: TLC rejects the observation ("+inv+")", f.Replay)
	} else {
		fmt.Printf("  TLC accepts the replayed observation\n")
	}
	return nil
}
