package c20

import (
	"context"
	"fmt"
	"path/filepath"
	"regexp"
	"runtime/debug"
	"strconv"
	"sync/atomic"
	"time"

	bleve "github.com/blevesearch/bleve/v2"
	"github.com/blevesearch/bleve/v2/analysis/analyzer/keyword"
	"github.com/blevesearch/bleve/v2/index/scorch"
	"github.com/blevesearch/bleve/v2/mapping"
	"github.com/blevesearch/bleve/v2/search/query"
)

// Naming gives the concrete JSON names of the three arrays.
type Naming struct{ A, C, B string }

var PlainNames = Naming{A: "a", C: "c", B: "b"}

// CollideNames: the sibling array's name starts with the first array's name
// ("a" / "ab"); object boundaries must not depend on that.
var CollideNames = Naming{A: "a", C: "c", B: "ab"}

func (n Naming) fieldPath(f string) string {
	switch f {
	case "t":
		return "t"
	case "x", "y":
		return n.A + "." + f
	case "u", "v":
		return n.A + "." + n.C + "." + f
	case "z", "w":
		return n.B + "." + f
	}
	panic("bad field " + f)
}

func kwField() *mapping.FieldMapping {
	f := mapping.NewTextFieldMapping()
	f.Analyzer = keyword.Name
	f.Store = false
	f.IncludeInAll = false
	f.IncludeTermVectors = false
	return f
}

// BuildMapping declares t, a[x,y,c[u,v]], b[z,w] with the arrays of k mapped
// nested (mapping.NewNestedDocumentStaticMapping) and the others as plain
// sub-document mappings (flattened). Keyword analyzer: analysis is identity.
func BuildMapping(k Kind, n Naming) mapping.IndexMapping { return BuildMappingStyle(k, n, 0) }

// BuildMappingStyle is BuildMapping put together in one of the ways applications
// do: style 1 also declares a mapping for another document type (no document
// of the corpus has it, they are all mapped by the default mapping), style 2
// validates the mapping once before the array mappings are attached.
func BuildMappingStyle(k Kind, n Naming, style int) mapping.IndexMapping {
	// every other round of styles builds the sub-document mappings with the
	// constructors of the top-level package instead of those of package mapping
	top := (style/3)%2 == 1
	sub := func(arr string) *mapping.DocumentMapping {
		if k.Has(arr) {
			if top {
				return bleve.NewNestedDocumentStaticMapping()
			}
			return mapping.NewNestedDocumentStaticMapping()
		}
		if top {
			return bleve.NewDocumentStaticMapping()
		}
		return mapping.NewDocumentStaticMapping()
	}
	im := mapping.NewIndexMapping()
	im.DefaultAnalyzer = keyword.Name
	root := mapping.NewDocumentStaticMapping()
	root.AddFieldMappingsAt("t", kwField())
	a := sub("a")
	a.AddFieldMappingsAt("x", kwField())
	a.AddFieldMappingsAt("y", kwField())
	c := sub("c")
	c.AddFieldMappingsAt("u", kwField())
	c.AddFieldMappingsAt("v", kwField())
	a.AddSubDocumentMapping(n.C, c)
	b := sub("b")
	b.AddFieldMappingsAt("z", kwField())
	b.AddFieldMappingsAt("w", kwField())
	if style%3 == 2 {
		im.DefaultMapping = root
		_ = im.Validate()
	}
	root.AddSubDocumentMapping(n.A, a)
	root.AddSubDocumentMapping(n.B, b)
	im.DefaultMapping = root
	if style%3 == 1 {
		other := mapping.NewDocumentStaticMapping()
		other.AddFieldMappingsAt("t", kwField())
		im.AddDocumentMapping("othertype", other)
	}
	return im
}

var mappingStyle int64

func terms(ts []int) []interface{} {
	out := make([]interface{}, len(ts))
	for i, t := range ts {
		out[i] = strconv.Itoa(t)
	}
	return out
}

// put stores a term list: absent when empty, a bare string when single and
// `variant` is odd (both JSON shapes occur in practice), else an array.
func put(m map[string]interface{}, key string, ts []int, variant int) {
	switch {
	case len(ts) == 0:
		if variant%3 == 0 {
			m[key] = []interface{}{}
		}
	case len(ts) == 1 && variant%2 == 1:
		m[key] = strconv.Itoa(ts[0])
	default:
		m[key] = terms(ts)
	}
}

// ToJSONDoc renders a tree as the map handed to Index(). Empty arrays are
// kept as empty arrays (variant even) or left out (variant odd).
func ToJSONDoc(d Doc, n Naming, variant int) map[string]interface{} {
	m := map[string]interface{}{}
	// every fifth variant hands the array elements over as POINTERS to the element
	// objects (documents built from Go values often hold []*Item)
	ptrElems := variant%5 == 4
	put(m, "t", d.T, variant)
	if len(d.A) > 0 || variant%2 == 0 {
		as := make([]interface{}, 0, len(d.A))
		for i, a := range d.A {
			am := map[string]interface{}{}
			put(am, "x", a.X, variant+i)
			put(am, "y", a.Y, variant+i+1)
			if len(a.C) > 0 || (variant+i)%2 == 0 {
				cs := make([]interface{}, 0, len(a.C))
				for j, c := range a.C {
					cm := map[string]interface{}{}
					put(cm, "u", c.U, variant+j)
					put(cm, "v", c.V, variant+j+1)
					if ptrElems {
						cs = append(cs, &cm)
					} else {
						cs = append(cs, cm)
					}
				}
				am[n.C] = cs
			}
			if ptrElems {
				as = append(as, &am)
				continue
			}
			as = append(as, am)
		}
		m[n.A] = as
	}
	if len(d.B) > 0 || variant%2 == 0 {
		bs := make([]interface{}, 0, len(d.B))
		for k, b := range d.B {
			bm := map[string]interface{}{}
			put(bm, "z", b.Z, variant+k)
			put(bm, "w", b.W, variant+k+1)
			if ptrElems {
				bs = append(bs, &bm)
				continue
			}
			bs = append(bs, bm)
		}
		m[n.B] = bs
	}
	return m
}

func subQueries(qs []Query, n Naming) []query.Query {
	if len(qs) == 0 {
		return nil
	}
	out := make([]query.Query, len(qs))
	for i, q := range qs {
		out[i] = ToBleveQuery(q, n)
	}
	return out
}

// ToBleveQuery builds the bleve query tree.
func ToBleveQuery(q Query, n Naming) query.Query {
	switch q.Op {
	case "term":
		t := query.NewTermQuery(strconv.Itoa(q.V))
		t.SetField(n.fieldPath(q.F))
		return t
	case "all":
		return query.NewMatchAllQuery()
	case "conj":
		return query.NewConjunctionQuery(subQueries(q.Qs, n))
	case "disj":
		d := query.NewDisjunctionQuery(subQueries(q.Qs, n))
		d.SetMin(float64(q.Min))
		return d
	case "bool":
		b := query.NewBooleanQuery(subQueries(q.Must, n), subQueries(q.Should, n), subQueries(q.MustNot, n))
		if len(q.Should) > 0 {
			b.SetMinShould(float64(q.Min))
		}
		return b
	}
	panic("bad op " + q.Op)
}

// ---- a real scorch index on disk

type Real struct {
	Idx     bleve.Index
	Kind    Kind
	Names   Naming
	Dir     string
	sc      *scorch.Scorch
	nbatch  int
	nmerge  int
	nSearch int64
}

func OpenReal(dir string, k Kind, n Naming) (*Real, error) {
	path := filepath.Join(dir, "idx")
	style := int(atomic.AddInt64(&mappingStyle, 1))
	idx, err := bleve.NewUsing(path, BuildMappingStyle(k, n, style), scorch.Name, scorch.Name, nil)
	if err != nil {
		return nil, err
	}
	r := &Real{Idx: idx, Kind: k, Names: n, Dir: dir}
	adv, err := idx.Advanced()
	if err != nil {
		idx.Close()
		return nil, err
	}
	sc, ok := adv.(*scorch.Scorch)
	if !ok {
		idx.Close()
		return nil, fmt.Errorf("index is %T, not scorch", adv)
	}
	r.sc = sc
	return r, nil
}

func (r *Real) Close() { _ = r.Idx.Close() }

func DocID(id int) string { return "d" + strconv.Itoa(id) }

// Op is one operation of a batch: Doc nil = delete.
type Op struct {
	ID  int
	Doc *Doc
}

// Batch applies the operations as one bleve batch (one new segment; parents
// it replaces or deletes live in older segments).
func (r *Real) Batch(ops []Op, variant int) error {
	b := r.Idx.NewBatch()
	for i, op := range ops {
		if op.Doc == nil {
			b.Delete(DocID(op.ID))
			continue
		}
		if err := b.Index(DocID(op.ID), ToJSONDoc(*op.Doc, r.Names, variant+i)); err != nil {
			return err
		}
	}
	r.nbatch++
	return r.Idx.Batch(b)
}

// ForceMerge merges all segments into one through scorch's merger.
func (r *Real) ForceMerge() error {
	ctx, cancel := context.WithTimeout(context.Background(), 60*time.Second)
	defer cancel()
	r.nmerge++
	return r.sc.ForceMerge(ctx, nil)
}

// Layout describes the segments of the current snapshot.
type Layout struct {
	Segments int
	Live     int // sub-documents not marked deleted, over all segments
	Deleted  int
}

func (r *Real) Layout() (Layout, error) {
	rd, err := r.sc.Reader()
	if err != nil {
		return Layout{}, err
	}
	defer rd.Close()
	is, ok := rd.(*scorch.IndexSnapshot)
	if !ok {
		return Layout{}, fmt.Errorf("reader is %T", rd)
	}
	vs := scorch.VerifSnapshot(is)
	l := Layout{Segments: len(vs.Segs)}
	for _, s := range vs.Segs {
		l.Live += int(s.Count - s.Deleted)
		l.Deleted += int(s.Deleted)
	}
	return l, nil
}

func (r *Real) DocCount() (int, error) {
	n, err := r.Idx.DocCount()
	return int(n), err
}

var reSub = regexp.MustCompile(`^d(\d+)(_\$.*)?$`)

// ParseHitID maps a returned id to (parent id, is a nested element's id).
func ParseHitID(s string) (Hit, bool) {
	m := reSub.FindStringSubmatch(s)
	if m == nil {
		return Hit{}, false
	}
	n, _ := strconv.Atoi(m[1])
	return Hit{ID: n, Sub: m[2] != ""}, true
}

// Search runs the query with a page that holds every possible hit. A panic
// inside bleve is reported in Err, not propagated.
func (r *Real) Search(q Query, size int) (obs Observed) {
	defer func() {
		if p := recover(); p != nil {
			obs = Observed{Err: fmt.Sprintf("panic: %v | %s", p, firstFrames(string(debug.Stack())))}
		}
	}()
	if atomic.AddInt64(&r.nSearch, 1)%3 == 0 {
		return r.searchPaged(q, size)
	}
	req := bleve.NewSearchRequestOptions(ToBleveQuery(q, r.Names), size, 0, false)
	res, err := r.Idx.Search(req)
	if err != nil {
		return Observed{Err: "error: " + err.Error()}
	}
	obs.Total = int(res.Total)
	for _, h := range res.Hits {
		hit, ok := ParseHitID(h.ID)
		if !ok {
			return Observed{Err: "unparsable hit id " + strconv.Quote(h.ID)}
		}
		obs.Hits = append(obs.Hits, hit)
	}
	return obs
}

// searchPaged collects the same answer page by page: sorted by _id, two hits per
// page, every next page requested with SearchAfter. Hits and Total must not
// depend on how the result is paged.
func (r *Real) searchPaged(q Query, size int) (obs Observed) {
	var after []string
	for page := 0; page <= size+2; page++ {
		req := bleve.NewSearchRequestOptions(ToBleveQuery(q, r.Names), 2, 0, false)
		req.SortBy([]string{"_id"})
		if after != nil {
			req.SetSearchAfter(after)
		}
		res, err := r.Idx.Search(req)
		if err != nil {
			return Observed{Err: "error: " + err.Error()}
		}
		if page == 0 {
			obs.Total = int(res.Total)
		} else if int(res.Total) != obs.Total {
			return Observed{Err: fmt.Sprintf("Total changes between pages: %d on the first page, %d on page %d (SearchAfter %v)", obs.Total, res.Total, page+1, after)}
		}
		if len(res.Hits) == 0 {
			return obs
		}
		for _, h := range res.Hits {
			hit, ok := ParseHitID(h.ID)
			if !ok {
				return Observed{Err: "unparsable hit id " + strconv.Quote(h.ID)}
			}
			obs.Hits = append(obs.Hits, hit)
		}
		after = []string{res.Hits[len(res.Hits)-1].ID}
	}
	return Observed{Err: "paging with SearchAfter does not end"}
}

var reFrame = regexp.MustCompile(`(?m)^github\.com/blevesearch/bleve/v2[^\n]*\n\t[^\n]*`)

func firstFrames(stack string) string {
	fs := reFrame.FindAllString(stack, 3)
	out := ""
	for _, f := range fs {
		out += regexp.MustCompile(`\s+`).ReplaceAllString(f, " ") + " ; "
	}
	return out
}
