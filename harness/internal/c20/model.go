// Package c20 checks property C20 (nested-object search respects object
// boundaries and returns each parent once).
//
// The oracle lives in TLA+ (spec/Nested*.tla, spec/trace/JudgeNested.tla).
// This package only (a) turns TLC-enumerated cases into operations on real
// scorch indexes and compares the real observables with the values TLC
// computed (Engine A), and (b) drives seeded random cases on real indexes
// and hands the recorded inputs and outputs to TLC for judgement (Engine B).
package c20

import (
	"encoding/json"
	"fmt"
	"sort"
	"strings"

	"verif/harness/internal/tlaval"
)

// ---- document trees (the schema of spec/Nested.tla)

type CElem struct {
	U []int `json:"u"`
	V []int `json:"v"`
}

type AElem struct {
	X []int   `json:"x"`
	Y []int   `json:"y"`
	C []CElem `json:"c"`
}

type BElem struct {
	Z []int `json:"z"`
	W []int `json:"w"`
}

type Doc struct {
	T []int   `json:"t"`
	A []AElem `json:"a"`
	B []BElem `json:"b"`
}

func ne(s []int) []int {
	if s == nil {
		return []int{}
	}
	return s
}

// norm makes every slice non-nil so that JSON has [] and never null.
func (d Doc) norm() Doc {
	d.T = ne(d.T)
	if d.A == nil {
		d.A = []AElem{}
	}
	if d.B == nil {
		d.B = []BElem{}
	}
	for i := range d.A {
		d.A[i].X, d.A[i].Y = ne(d.A[i].X), ne(d.A[i].Y)
		if d.A[i].C == nil {
			d.A[i].C = []CElem{}
		}
		for j := range d.A[i].C {
			d.A[i].C[j].U, d.A[i].C[j].V = ne(d.A[i].C[j].U), ne(d.A[i].C[j].V)
		}
	}
	for k := range d.B {
		d.B[k].Z, d.B[k].W = ne(d.B[k].Z), ne(d.B[k].W)
	}
	return d
}

// Elements returns the number of array elements (a + a.c + b).
func (d Doc) Elements() int {
	n := len(d.A) + len(d.B)
	for _, a := range d.A {
		n += len(a.C)
	}
	return n
}

// SubDocs is the number of sub-documents (parent included) the tree has
// under kind k.
func (d Doc) SubDocs(k Kind) int {
	n := 1
	if k.Has("a") {
		n += len(d.A)
	}
	if k.Has("c") {
		for _, a := range d.A {
			n += len(a.C)
		}
	}
	if k.Has("b") {
		n += len(d.B)
	}
	return n
}

func ints(v any) []int {
	out := []int{}
	for _, e := range tlaval.List(v) {
		out = append(out, tlaval.Int(e))
	}
	return out
}

// DocFromTLA converts a parsed TLA+ tree value.
func DocFromTLA(v any) Doc {
	d := Doc{T: ints(tlaval.Field(v, "t")), A: []AElem{}, B: []BElem{}}
	for _, a := range tlaval.List(tlaval.Field(v, "a")) {
		ae := AElem{X: ints(tlaval.Field(a, "x")), Y: ints(tlaval.Field(a, "y")), C: []CElem{}}
		for _, c := range tlaval.List(tlaval.Field(a, "c")) {
			ae.C = append(ae.C, CElem{U: ints(tlaval.Field(c, "u")), V: ints(tlaval.Field(c, "v"))})
		}
		d.A = append(d.A, ae)
	}
	for _, b := range tlaval.List(tlaval.Field(v, "b")) {
		d.B = append(d.B, BElem{Z: ints(tlaval.Field(b, "z")), W: ints(tlaval.Field(b, "w"))})
	}
	return d
}

// ---- mapping kinds: the set of arrays mapped `nested`

type Kind []string // sorted subset of {"a","b","c"}

func (k Kind) Has(arr string) bool {
	for _, x := range k {
		if x == arr {
			return true
		}
	}
	return false
}

func (k Kind) String() string {
	if len(k) == 0 {
		return "flat"
	}
	return "nested{" + strings.Join(k, ",") + "}"
}

func KindByName(n string) Kind {
	switch n {
	case "nested":
		return Kind{"a", "b", "c"}
	case "flat":
		return Kind{}
	case "outer":
		return Kind{"a", "b"}
	case "inner":
		return Kind{"c"}
	case "aonly":
		return Kind{"a"}
	case "bonly":
		return Kind{"b"}
	case "ac":
		return Kind{"a", "c"}
	case "cb":
		return Kind{"b", "c"}
	}
	panic("unknown kind " + n)
}

var AllKinds = []Kind{{}, {"a"}, {"b"}, {"c"}, {"a", "b"}, {"a", "c"}, {"b", "c"}, {"a", "b", "c"}}

// ---- queries

type Query struct {
	Op      string  `json:"op"`
	F       string  `json:"f,omitempty"`
	V       int     `json:"v,omitempty"`
	Qs      []Query `json:"qs,omitempty"`
	Must    []Query `json:"must,omitempty"`
	Should  []Query `json:"should,omitempty"`
	MustNot []Query `json:"mustnot,omitempty"`
	Min     int     `json:"min"`
}

// MarshalJSON emits exactly the record shape the TLA+ operators expect per
// operator (all list fields present, possibly empty).
func (q Query) MarshalJSON() ([]byte, error) {
	l := func(qs []Query) []Query {
		if qs == nil {
			return []Query{}
		}
		return qs
	}
	switch q.Op {
	case "term":
		return json.Marshal(map[string]any{"op": "term", "f": q.F, "v": q.V})
	case "all":
		return json.Marshal(map[string]any{"op": "all"})
	case "conj":
		return json.Marshal(map[string]any{"op": "conj", "qs": l(q.Qs)})
	case "disj":
		return json.Marshal(map[string]any{"op": "disj", "qs": l(q.Qs), "min": q.Min})
	case "bool":
		return json.Marshal(map[string]any{"op": "bool", "must": l(q.Must), "should": l(q.Should), "mustnot": l(q.MustNot), "min": q.Min})
	}
	return nil, fmt.Errorf("bad query op %q", q.Op)
}

func (q *Query) UnmarshalJSON(b []byte) error {
	type plain Query
	var p plain
	if err := json.Unmarshal(b, &p); err != nil {
		return err
	}
	*q = Query(p)
	return nil
}

func queries(v any) []Query {
	var out []Query
	for _, e := range tlaval.List(v) {
		out = append(out, QueryFromTLA(e))
	}
	return out
}

func QueryFromTLA(v any) Query {
	op := tlaval.Str(tlaval.Field(v, "op"))
	switch op {
	case "term":
		return Query{Op: op, F: tlaval.Str(tlaval.Field(v, "f")), V: tlaval.Int(tlaval.Field(v, "v"))}
	case "all":
		return Query{Op: op}
	case "conj":
		return Query{Op: op, Qs: queries(tlaval.Field(v, "qs"))}
	case "disj":
		return Query{Op: op, Qs: queries(tlaval.Field(v, "qs")), Min: tlaval.Int(tlaval.Field(v, "min"))}
	case "bool":
		return Query{Op: op, Must: queries(tlaval.Field(v, "must")), Should: queries(tlaval.Field(v, "should")),
			MustNot: queries(tlaval.Field(v, "mustnot")), Min: tlaval.Int(tlaval.Field(v, "min"))}
	}
	panic("bad op " + op)
}

func (q Query) String() string {
	j := func(qs []Query) string {
		var s []string
		for _, x := range qs {
			s = append(s, x.String())
		}
		return strings.Join(s, ",")
	}
	switch q.Op {
	case "term":
		return fmt.Sprintf("%s=%d", q.F, q.V)
	case "all":
		return "all"
	case "conj":
		return "conj(" + j(q.Qs) + ")"
	case "disj":
		return fmt.Sprintf("disj%d(%s)", q.Min, j(q.Qs))
	case "bool":
		return fmt.Sprintf("bool(must[%s] should%d[%s] not[%s])", j(q.Must), q.Min, j(q.Should), j(q.MustNot))
	}
	return "?"
}

// Fields returns the sorted set of fields the query mentions.
func (q Query) Fields() []string {
	set := map[string]bool{}
	var walk func(q Query)
	walk = func(q Query) {
		if q.Op == "term" {
			set[q.F] = true
		}
		for _, l := range [][]Query{q.Qs, q.Must, q.Should, q.MustNot} {
			for _, x := range l {
				walk(x)
			}
		}
	}
	walk(q)
	var out []string
	for f := range set {
		out = append(out, f)
	}
	sort.Strings(out)
	return out
}

// ---- hits as the specification sees them

// Hit is one returned document: the id of the parent it belongs to, and
// whether the returned id was that of a nested element.
type Hit struct {
	ID  int  `json:"id"`
	Sub bool `json:"sub"`
}

// Observed is what one search on a real index returned.
type Observed struct {
	Hits  []Hit
	Total int
	Err   string // non-empty: the search failed or panicked
}

func (o Observed) parentSet() (map[int]bool, bool, bool) {
	set := map[int]bool{}
	dup, sub := false, false
	for _, h := range o.Hits {
		if h.Sub {
			sub = true
			continue
		}
		if set[h.ID] {
			dup = true
		}
		set[h.ID] = true
	}
	return set, dup, sub
}
