//go:build verif

package c20

import (
	"math/rand"
	"os"
	"testing"
	"time"
)

func TestBenchPlay(t *testing.T) {
	rng := rand.New(rand.NewSource(1))
	d1 := RandDoc(rng, 2, 3, 2, 2)
	d2 := RandDoc(rng, 2, 3, 2, 2)
	steps := []Step{{Ops: []Op{{ID: 1, Doc: &d1}}}, {Ops: []Op{{ID: 2, Doc: &d2}}}, {Ops: []Op{{ID: 1}}}, {Merge: true}}
	for round := 0; round < 3; round++ {
		t0 := time.Now()
		dir, _ := os.MkdirTemp("/dev/shm", "c20bench")
		r, err := OpenReal(dir, KindByName("nested"), PlainNames)
		if err != nil {
			t.Fatal(err)
		}
		t1 := time.Now()
		for i, s := range steps {
			ts := time.Now()
			if s.Merge {
				r.ForceMerge()
			} else {
				r.Batch(s.Ops, i)
			}
			t.Logf("  step %d merge=%v %v", i, s.Merge, time.Since(ts))
		}
		t2 := time.Now()
		obs := r.Search(Query{Op: "all"}, 10)
		t3 := time.Now()
		r.Close()
		t4 := time.Now()
		os.RemoveAll(dir)
		t.Logf("open %v steps %v search %v close %v hits %v", t1.Sub(t0), t2.Sub(t1), t3.Sub(t2), t4.Sub(t3), obs.Hits)
	}
}
