// Package c05: "Merging and persisting never change what any search returns".
//
// Model decides: spec/Index.tla (BatchingIndependent: every batch partition of
// a history reaches the same abstract state) and spec/ScorchDisk.tla
// (LayoutStutters: persist / merge introductions never change content;
// RootIsReplay under stale obsoletes and merges).
//
// Code is bound by: TLC-simulated histories of Index.tla are applied to real
// scorch indexes in many layouts (calls as given in memory; one big batch;
// one batch per call; on disk before persist, after persist, after forced
// merge, after reopen; 3 persister workers; zap v15/v16) and a fixed battery of
// requests is sent to each; TLC (spec/trace/TraceLayout.tla) judges that all
// layouts of one history answer every request identically (hit ids, total,
// order under total sorts, scores, sort keys, stored fields, locations,
// fragments, facets).
package c05

import (
	"crypto/sha1"
	"encoding/hex"
	"encoding/json"
	"errors"
	"fmt"
	"os"
	"sort"
	"strconv"
	"sync"
	"sync/atomic"
	"time"
	"verif/harness/internal/sx"

	bleve "github.com/blevesearch/bleve/v2"
	"github.com/blevesearch/bleve/v2/analysis/analyzer/keyword"
	"github.com/blevesearch/bleve/v2/index/scorch"
	"github.com/blevesearch/bleve/v2/mapping"
	"github.com/blevesearch/bleve/v2/search/query"
	"path/filepath"

	"verif/harness/internal/bx"
	"verif/harness/internal/core"
	"verif/harness/internal/tlaval"
	"verif/harness/internal/tlc"
)

func init() {
	core.Register(&core.Check{Prop: "C05", Level: "model_checking", Run: run})
}

var vocab = []string{"ant", "bee", "cat", "dog", "eel"}

// docFor: the document of (id, version) — small vocabulary so terms collide.
func docFor(id string, ver int) map[string]interface{} {
	h := int(id[0]) + ver
	body := ""
	n := 2 + h%3
	for i := 0; i < n; i++ {
		if i > 0 {
			body += " "
		}
		body += vocab[(h+i*i)%len(vocab)]
	}
	return map[string]interface{}{
		"body":  body,
		"title": fmt.Sprintf("%s v%d %s", id, ver, vocab[h%len(vocab)]),
		"n":     float64(ver % 7),
		"tag":   []string{"t" + strconv.Itoa(ver%3), "u" + strconv.Itoa(h%2)},
		"key":   "k" + id,
	}
}

func buildMapping() mapping.IndexMapping {
	m := bleve.NewIndexMapping()
	dm := bleve.NewDocumentMapping()
	txt := bleve.NewTextFieldMapping()
	txt.Store, txt.IncludeTermVectors = true, true
	dm.AddFieldMappingsAt("body", txt)
	dm.AddFieldMappingsAt("title", txt)
	num := bleve.NewNumericFieldMapping()
	num.Store = true
	dm.AddFieldMappingsAt("n", num)
	kw := bleve.NewTextFieldMapping()
	kw.Analyzer = keyword.Name
	kw.Store = true
	// no term vectors: merged segments then use the compact "1-hit" posting encoding
	// for a term that sits in exactly one of their documents
	kw.IncludeTermVectors = false
	dm.AddFieldMappingsAt("tag", kw)
	dm.AddFieldMappingsAt("key", kw)
	m.DefaultMapping = dm
	return m
}

type call struct {
	Op string // index | delete
	ID string
	V  int
}

// one history = list of acts; each act is a list of calls applied in one batch
type history struct {
	ID   int
	Acts [][]call
}

func historiesFrom(behs []tlc.Behaviour) []history {
	var out []history
	for hi, b := range behs {
		h := history{ID: hi + 1}
		for _, st := range b {
			a := st["act"]
			switch tlaval.Str(tlaval.Field(a, "name")) {
			case "single":
				cl := tlaval.Field(a, "call")
				op := tlaval.Str(tlaval.Field(cl, "op"))
				if op == "index" || op == "delete" {
					h.Acts = append(h.Acts, []call{{op, tlaval.Str(tlaval.Field(cl, "k")), tlaval.Int(tlaval.Field(cl, "v"))}})
				}
			case "exec":
				var cs []call
				for _, cl := range tlaval.List(tlaval.Field(a, "batch")) {
					op := tlaval.Str(tlaval.Field(cl, "op"))
					if op == "index" || op == "delete" {
						cs = append(cs, call{op, tlaval.Str(tlaval.Field(cl, "k")), tlaval.Int(tlaval.Field(cl, "v"))})
					}
				}
				h.Acts = append(h.Acts, cs)
			}
		}
		if len(h.Acts) > 0 {
			out = append(out, h)
		}
	}
	return out
}

func applyBatch(idx bleve.Index, cs []call) error {
	b := idx.NewBatch()
	for _, c := range cs {
		if c.Op == "index" {
			if err := b.Index(c.ID, docFor(c.ID, c.V)); err != nil {
				return err
			}
		} else {
			b.Delete(c.ID)
		}
	}
	return idx.Batch(b)
}

type request struct {
	Name string
	Req  func() *bleve.SearchRequest
}

func tq(f, t string) *query.TermQuery { q := bleve.NewTermQuery(t); q.SetField(f); return q }

func battery() []request {
	mk := func(q query.Query, sortBy []string, f func(r *bleve.SearchRequest)) func() *bleve.SearchRequest {
		return func() *bleve.SearchRequest {
			r := bleve.NewSearchRequestOptions(q, 50, 0, false)
			r.SortBy(sortBy)
			if f != nil {
				f(r)
			}
			return r
		}
	}
	scoreID := []string{"-_score", "_id"}
	mq := bleve.NewMatchQuery("bee cat")
	mq.SetField("body")
	ph := bleve.NewMatchPhraseQuery("bee cat")
	ph.SetField("body")
	bq := bleve.NewBooleanQuery()
	bq.AddMust(tq("body", "ant"))
	bq.AddShould(tq("body", "cat"))
	conj := bleve.NewConjunctionQuery(tq("body", "bee"), bq)
	bq2 := bleve.NewBooleanQuery()
	bq2.AddMust(tq("body", "bee"))
	bq2.AddShould(tq("body", "dog"), tq("body", "eel"))
	bq2.AddMustNot(tq("tag", "t0"))
	dis := bleve.NewDisjunctionQuery(tq("body", "ant"), tq("body", "dog"), tq("body", "eel"))
	dis.SetMin(2)
	lo, hi := 2.0, 5.0
	nr := bleve.NewNumericRangeQuery(&lo, &hi)
	nr.SetField("n")
	pq := bleve.NewPrefixQuery("t")
	pq.SetField("tag")
	return []request{
		{"match", mk(mq, scoreID, func(r *bleve.SearchRequest) { r.Fields = []string{"title", "n"} })},
		{"phrase+hl", mk(ph, scoreID, func(r *bleve.SearchRequest) {
			r.IncludeLocations = true
			r.Highlight = bleve.NewHighlightWithStyle("html")
			r.Highlight.AddField("body")
		})},
		{"conj(bool must should)", mk(conj, scoreID, func(r *bleve.SearchRequest) { r.Explain = false })},
		{"bool must should mustnot", mk(bq2, scoreID, nil)},
		{"disj min2", mk(dis, scoreID, func(r *bleve.SearchRequest) { r.IncludeLocations = true })},
		{"numrange sort n", mk(nr, []string{"-n", "_id"}, func(r *bleve.SearchRequest) { r.Fields = []string{"n"} })},
		{"matchall facets", mk(bleve.NewMatchAllQuery(), []string{"n", "-_id"}, func(r *bleve.SearchRequest) {
			r.AddFacet("tags", bleve.NewFacetRequest("tag", 10))
			nf := bleve.NewFacetRequest("n", 4)
			a, b, c := 0.0, 3.0, 10.0
			nf.AddNumericRange("low", &a, &b)
			nf.AddNumericRange("high", &b, &c)
			r.AddFacet("ns", nf)
			r.Size = 3
			r.From = 1
		})},
		{"prefix", mk(pq, scoreID, nil)},
		{"match score:none", mk(mq, []string{"_id"}, func(r *bleve.SearchRequest) { r.Score = "none" })},
		{"conj tags score:none", mk(bleve.NewConjunctionQuery(tq("tag", "t1"), tq("tag", "u0")), []string{"_id"}, func(r *bleve.SearchRequest) { r.Score = "none" })},
		{"disj tags score:none", mk(bleve.NewDisjunctionQuery(tq("tag", "t2"), tq("tag", "u1")), []string{"_id"}, func(r *bleve.SearchRequest) { r.Score = "none" })},
		// terms that sit in exactly one document (merged segments encode them specially)
		{"conj 1-hit c score:none", mk(bleve.NewConjunctionQuery(tq("title", "c"), tq("tag", "u1")), []string{"_id"}, func(r *bleve.SearchRequest) { r.Score = "none" })},
		{"conj 1-hit e score:none", mk(bleve.NewConjunctionQuery(tq("title", "e"), tq("tag", "u1")), []string{"_id"}, func(r *bleve.SearchRequest) { r.Score = "none" })},
		{"conj tags t0 u1 score:none", mk(bleve.NewConjunctionQuery(tq("tag", "t0"), tq("tag", "u1")), []string{"_id"}, func(r *bleve.SearchRequest) { r.Score = "none" })},
		{"conj tags t2 u0 score:none", mk(bleve.NewConjunctionQuery(tq("tag", "t2"), tq("tag", "u0")), []string{"_id"}, func(r *bleve.SearchRequest) { r.Score = "none" })},
		{"disj keys score:none", mk(bleve.NewDisjunctionQuery(tq("key", "ka"), tq("key", "kc"), tq("key", "kf"), tq("tag", "t1")), []string{"_id"}, func(r *bleve.SearchRequest) { r.Score = "none" })},
		{"disj keys only score:none", mk(bleve.NewDisjunctionQuery(tq("key", "kb"), tq("key", "kd"), tq("key", "kg"), tq("key", "kh")), []string{"_id"}, func(r *bleve.SearchRequest) { r.Score = "none" })},
		{"disj 1-hit score:none", mk(bleve.NewDisjunctionQuery(tq("title", "d"), tq("title", "f"), tq("tag", "t0")), []string{"_id"}, func(r *bleve.SearchRequest) { r.Score = "none" })},
	}
}

func digest(v any) string {
	b, _ := json.Marshal(v)
	h := sha1.Sum(b)
	return hex.EncodeToString(h[:6])
}

// answers runs the battery and renders records for TraceLayout.
// stuckSearches counts requests that did not come back; after a few of them the rest of the
// run only collects what it has (every stuck search keeps a core busy).
var stuckSearches int64

// poisoned: indexes with a search that never came back; Close would wait for it for ever
var poisoned sync.Map

var errStuck = errors.New("a search did not come back")
var stuckMu sync.Mutex
var stuckByH = map[int][]any{}

func closeIdx(idx bleve.Index) error {
	if idx == nil {
		return nil
	}
	if _, bad := poisoned.Load(idx); bad {
		return nil
	}
	return idx.Close()
}

func answers(idx bleve.Index, h int, layout string) ([]any, error) {
	var out []any
	for i, rq := range battery() {
		if atomic.LoadInt64(&stuckSearches) >= 3 {
			return out, nil
		}
		var res *bleve.SearchResult
		var err error
		done := make(chan struct{})
		go func() {
			defer close(done)
			res, err = idx.Search(rq.Req())
		}()
		select {
		case <-done:
		case <-time.After(60 * time.Second):
			atomic.AddInt64(&stuckSearches, 1)
			poisoned.Store(idx, true)
			stuckMu.Lock()
			stuckByH[h] = append(stuckByH[h], map[string]any{"h": h, "layout": layout, "req": i, "reqname": rq.Name, "ids": []any{"<no answer in 60 s>"}, "scores": []any{},
				"total": -2, "extras": []any{}, "facets": "", "maxscore": ""})
			stuckMu.Unlock()
			return nil, errStuck // the layout stops here: closing or reopening this index would wait for ever
			// a request that does not come back on this layout (it answers in milliseconds on the
			// others): that is its answer here; the remaining requests of this layout are skipped
			// because the stuck search keeps running
		}
		if err != nil {
			// a request that fails on this layout: that IS its answer here (compared
			// with the answer of the first layout like any other)
			out = append(out, map[string]any{"h": h, "layout": layout, "req": i, "reqname": rq.Name, "ids": []any{"<search error>"}, "scores": []any{},
				"total": -1, "extras": []any{err.Error()}, "facets": "", "maxscore": ""})
			continue
		}
		ids, scores, extras := []any{}, []any{}, []any{}
		for _, hit := range res.Hits {
			ids = append(ids, hit.ID)
			scores = append(scores, strconv.FormatFloat(hit.Score, 'g', -1, 64))
			// locations: field -> term -> list of (pos,start,end,arraypos) sorted
			locs := map[string]map[string][]string{}
			for f, tl := range hit.Locations {
				locs[f] = map[string][]string{}
				for t, ls := range tl {
					var xs []string
					for _, l := range ls {
						xs = append(xs, fmt.Sprintf("%d:%d:%d:%v", l.Pos, l.Start, l.End, l.ArrayPositions))
					}
					sort.Strings(xs)
					locs[f][t] = xs
				}
			}
			extras = append(extras, digest([]any{hit.Sort, hit.Fields, locs, hit.Fragments}))
		}
		facets := digest(res.Facets)
		out = append(out, map[string]any{"h": h, "layout": layout, "req": i, "reqname": rq.Name, "ids": ids, "scores": scores,
			"total": int(res.Total), "extras": extras, "facets": facets, "maxscore": strconv.FormatFloat(res.MaxScore, 'g', -1, 64)})
	}
	return out, nil
}

type layout struct {
	Name string
	Run  func(c *core.Ctx, h history) ([]any, error)
}

func memLayout(name string, regroup func(h history) [][]call) layout {
	return layout{name, func(c *core.Ctx, h history) ([]any, error) {
		idx, err := bx.ScorchMem.New("", buildMapping())
		if err != nil {
			return nil, err
		}
		defer closeIdx(idx)
		for _, cs := range regroup(h) {
			if err := applyBatch(idx, cs); err != nil {
				return nil, err
			}
		}
		return answers(idx, h.ID, name)
	}}
}

func asGiven(h history) [][]call { return h.Acts }

// collapse the whole history into ONE batch (last op per id wins, C01)
func oneBatch(h history) [][]call {
	last := map[string]call{}
	var order []string
	for _, cs := range h.Acts {
		for _, c := range cs {
			if _, ok := last[c.ID]; !ok {
				order = append(order, c.ID)
			}
			last[c.ID] = c
		}
	}
	var b []call
	for _, id := range order {
		b = append(b, last[id])
	}
	return [][]call{b}
}

// one batch per effective call (ops of one batch that touch the same id are collapsed first)
func oneCallPerBatch(h history) [][]call {
	var out [][]call
	for _, cs := range h.Acts {
		last := map[string]call{}
		var order []string
		for _, c := range cs {
			if _, ok := last[c.ID]; !ok {
				order = append(order, c.ID)
			}
			last[c.ID] = c
		}
		sort.Strings(order)
		for i := len(order) - 1; i >= 0; i-- { // reverse id order: a different physical document order
			out = append(out, []call{last[order[i]]})
		}
	}
	return out
}

func diskLayout(prefix string, cfg bx.Config) layout {
	return layout{prefix, func(c *core.Ctx, h history) ([]any, error) {
		dir := c.TempDir("c05")
		defer os.RemoveAll(dir)
		idx, err := cfg.New(dir, buildMapping())
		if err != nil {
			return nil, err
		}
		defer func() {
			if idx != nil {
				_ = closeIdx(idx)
			}
		}()
		for _, cs := range h.Acts {
			if err := applyBatch(idx, cs); err != nil {
				return nil, err
			}
		}
		var out []any
		a, err := answers(idx, h.ID, prefix+"/fresh")
		if err != nil {
			return nil, err
		}
		out = append(out, a...)
		sc := bx.AsScorch(idx)
		if !bx.WaitPersisted(sc, 30*time.Second) {
			return nil, fmt.Errorf("persist wait timed out")
		}
		if a, err = answers(idx, h.ID, prefix+"/persisted"); err != nil {
			return nil, err
		}
		out = append(out, a...)
		if err := bx.ForceMerge(sc); err != nil {
			return nil, err
		}
		if a, err = answers(idx, h.ID, prefix+"/merged"); err != nil {
			return nil, err
		}
		out = append(out, a...)
		bx.WaitPersisted(sc, 30*time.Second)
		if err := closeIdx(idx); err != nil {
			return nil, err
		}
		idx, err = cfg.Reopen(dir)
		if err != nil {
			idx = nil
			return nil, fmt.Errorf("reopen: %v", err)
		}
		if a, err = answers(idx, h.ID, prefix+"/reopened"); err != nil {
			return nil, err
		}
		out = append(out, a...)
		return out, nil
	}}
}

// noMergeCfg keeps the background merger from merging (scorch's exported event
// callback vetoes every merge), so the index keeps many small file segments
// with deletions spread over them.
var registerVeto sync.Once

func noMergeCfg() bx.Config {
	registerVeto.Do(func() {
		scorch.RegistryEventCallbacks["verif-veto-merge"] = func(e scorch.Event) bool {
			return e.Kind != scorch.EventKindPreMergeCheck
		}
	})
	cfg := bx.ScorchDiskUnsafe
	cfg.Name = "scorch-disk-nomerge"
	cfg.KVConfig = map[string]interface{}{"unsafe_batch": true, "eventCallbackName": "verif-veto-merge"}
	return cfg
}

// regroup re-partitions a history into batches of about n acts each (ops on the
// same id inside one new batch are collapsed, last one wins - C01).
func regroup(h history, n int) [][]call {
	var out [][]call
	var cur []call
	flush := func() {
		if len(cur) == 0 {
			return
		}
		last := map[string]call{}
		var order []string
		for _, c := range cur {
			if _, ok := last[c.ID]; !ok {
				order = append(order, c.ID)
			}
			last[c.ID] = c
		}
		var b []call
		for _, id := range order {
			b = append(b, last[id])
		}
		out = append(out, b)
		cur = nil
	}
	for i, cs := range h.Acts {
		cur = append(cur, cs...)
		if (i+1)%n == 0 {
			flush()
		}
	}
	flush()
	return out
}

// noMergeLayout: many file segments, answers before and after reopen (no merge at all).
func noMergeLayout() layout {
	return layout{"disk-nomerge", func(c *core.Ctx, h history) ([]any, error) {
		cfg := noMergeCfg()
		dir := c.TempDir("c05n")
		defer os.RemoveAll(dir)
		idx, err := cfg.New(dir, buildMapping())
		if err != nil {
			return nil, err
		}
		defer func() {
			if idx != nil {
				_ = closeIdx(idx)
			}
		}()
		// group the history into batches of several documents so that file
		// segments keep some live documents next to deleted ones
		for _, cs := range regroup(h, 3) {
			if err := applyBatch(idx, cs); err != nil {
				return nil, err
			}
			if sc := bx.AsScorch(idx); sc != nil {
				bx.WaitPersisted(sc, 30*time.Second) // one file segment per batch
			}
		}
		out, err := answers(idx, h.ID, "disk-nomerge/persisted")
		if err != nil {
			return nil, err
		}
		if err := closeIdx(idx); err != nil {
			return nil, err
		}
		idx, err = bleve.OpenUsing(filepath.Join(dir, "idx"), map[string]interface{}{"eventCallbackName": "verif-veto-merge"})
		if err != nil {
			idx = nil
			return nil, fmt.Errorf("reopen: %v", err)
		}
		a, err := answers(idx, h.ID, "disk-nomerge/reopened")
		if err != nil {
			return nil, err
		}
		return append(out, a...), nil
	}}
}

// midMergeLayout: a forced merge in the middle of the history, further batches
// on top of the merged segment (merged segments encode single-hit terms specially).
func midMergeLayout() layout {
	return layout{"disk-midmerge", func(c *core.Ctx, h history) ([]any, error) {
		dir := c.TempDir("c05m")
		defer os.RemoveAll(dir)
		idx, err := bx.ScorchDiskUnsafe.New(dir, buildMapping())
		if err != nil {
			return nil, err
		}
		defer closeIdx(idx)
		acts := oneCallPerBatch(h)
		for i, cs := range acts {
			if err := applyBatch(idx, cs); err != nil {
				return nil, err
			}
			if i == len(acts)/2 || i == (3*len(acts))/4 {
				sc := bx.AsScorch(idx)
				bx.WaitPersisted(sc, 30*time.Second)
				if err := bx.ForceMerge(sc); err != nil {
					return nil, err
				}
			}
		}
		return answers(idx, h.ID, "disk-midmerge")
	}}
}

func layouts(c *core.Ctx) []layout {
	ls := []layout{
		memLayout("mem/as-given", asGiven),
		memLayout("mem/one-batch", oneBatch),
		memLayout("mem/one-call-per-batch-reversed", oneCallPerBatch),
		diskLayout("disk-unsafe", bx.ScorchDiskUnsafe),
		diskLayout("disk-3workers", bx.ScorchWorkers3),
		noMergeLayout(),
		midMergeLayout(),
	}
	if c.Thorough() {
		ls = append(ls, diskLayout("disk-safe", bx.ScorchDisk), diskLayout("disk-zap15", bx.ScorchZap15), diskLayout("disk-zap16", bx.ScorchZap16))
	}
	return ls
}

func run(c *core.Ctx) error {
	c.SetRule("one evaluation = one request of the battery (18 requests: match, phrase+highlight+locations, conj(term, bool(must, should)), bool must/should/must-not, disjunction min 2, numeric range + numeric sort + fields, match_all + terms/numeric facets + paging, prefix, score:none) sent to one layout of one TLC-generated history; " +
		"distinct_nontrivial = distinct (history, request) whose answer has at least one hit and that was compared across >= 2 layouts")
	c.Assume("sorts are made total by appending _id (natural-order tie-breaking legitimately depends on layout)")
	mcfg := "Index_mc_quick.cfg"
	if c.Thorough() {
		mcfg = "Index_mc_thorough.cfg"
	}
	if _, ok := c.ModelCheck("Index", mcfg, core.Workers(8), core.Timeout(20*time.Minute)); !ok {
		return nil
	}
	if _, ok := c.ModelCheck("ScorchDisk", "ScorchDisk_mc_content.cfg", core.Workers(8), core.Timeout(25*time.Minute), core.Heap(8000)); !ok {
		return nil
	}
	if err := sx.PlannerContract(c, "c05"); err != nil {
		return err
	}
	behs, err := c.Simulate("Index", "Index_sim_c05.cfg", c.Pick(40, 400), c.Pick(30, 45), c.Seed, core.Timeout(10*time.Minute))
	if err != nil {
		return err
	}
	hs := historiesFrom(behs)
	ls := layouts(c)
	c.Logf("%d histories x %d layouts", len(hs), len(ls))
	type job struct{ hi, li int }
	results := make([][]any, len(hs)*len(ls))
	jobs := make(chan job, 64)
	var wg sync.WaitGroup
	var mu sync.Mutex
	var firstErr error
	for w := 0; w < 12; w++ {
		wg.Add(1)
		go func() {
			defer wg.Done()
			for j := range jobs {
				recs, err := ls[j.li].Run(c, hs[j.hi])
				if errors.Is(err, errStuck) {
					// the layout was abandoned at a search that never came back: that answer is judged
					stuckMu.Lock()
					recs, err = stuckByH[hs[j.hi].ID], nil
					delete(stuckByH, hs[j.hi].ID)
					stuckMu.Unlock()
				}
				mu.Lock()
				if err != nil && firstErr == nil {
					firstErr = fmt.Errorf("history %d layout %s: %v", hs[j.hi].ID, ls[j.li].Name, err)
				}
				results[j.hi*len(ls)+j.li] = recs
				mu.Unlock()
			}
		}()
	}
	for hi := range hs {
		for li := range ls {
			jobs <- job{hi, li}
		}
	}
	close(jobs)
	wg.Wait()
	if firstErr != nil {
		return firstErr
	}
	var all []any
	for _, recs := range results {
		for _, r := range recs {
			all = append(all, r)
			c.Eval(1)
			m := r.(map[string]any)
			if len(m["ids"].([]any)) > 0 {
				c.Distinct(fmt.Sprintf("%v/%v", m["h"], m["req"]))
			}
		}
	}
	if len(hs) > 0 {
		c.Sample(map[string]any{"history": hs[0].Acts, "answer_record": all[0]})
	}
	// TLC judges the records in chunks of whole histories (a record is compared with
	// the first layout of ITS history), a few chunks at a time
	type chunk struct{ lo, hi int }
	var chunks []chunk
	{
		per := 40 * len(ls) // result slots per chunk: 40 histories
		pos := 0
		for s0 := 0; s0 < len(results); s0 += per {
			n := 0
			for k := s0; k < s0+per && k < len(results); k++ {
				n += len(results[k])
			}
			chunks = append(chunks, chunk{pos, pos + n})
			pos += n
		}
	}
	bad := map[int]string{}
	{
		var jmu sync.Mutex
		var jwg sync.WaitGroup
		var jerr error
		sem := make(chan struct{}, 4)
		for _, ch := range chunks {
			if ch.hi == ch.lo {
				continue
			}
			jwg.Add(1)
			sem <- struct{}{}
			go func(ch chunk) {
				defer jwg.Done()
				defer func() { <-sem }()
				b, err := c.JudgeRecords("TraceLayout", "TraceLayout.cfg", all[ch.lo:ch.hi], 6, core.Timeout(15*time.Minute), core.Heap(4000))
				jmu.Lock()
				defer jmu.Unlock()
				if err != nil && jerr == nil {
					jerr = err
				}
				for i, inv := range b {
					bad[ch.lo+i] = inv
				}
			}(ch)
		}
		jwg.Wait()
		if jerr != nil {
			return jerr
		}
	}
	c.Traces(len(hs))
	for i, inv := range bad {
		m := all[i].(map[string]any)
		var hist history
		for _, h := range hs {
			if h.ID == m["h"] {
				hist = h
			}
		}
		c.Violation(fmt.Sprintf("c05/%s/%v", inv, m["reqname"]),
			fmt.Sprintf("%s: request %q answered differently by layout %v than by the first layout of history %v", inv, m["reqname"], m["layout"], m["h"]),
			map[string]any{"history": hist.Acts, "record": m})
	}
	c.SetExhaustive(false)
	return nil
}
