// Package c13: "Rollback restores exactly the state persisted at the chosen
// rollback point".
//
// Model decides: spec/ScorchDisk.tla — EveryBoltIsAState (every persisted
// snapshot, including those persisted through the in-memory-merge "equiv"
// path, is the replay of a prefix), NewestLoads, RollbackOK (after deleting
// the newer snapshots the target loads), retention with KeepN 1..3.
//
// Code is bound by: histories with every batch tagged by internal key seq,
// retention settings 1..3, safe and unsafe batches with settling pauses so
// that several epochs are persisted; at the end scorch.RollbackPoints is read
// and for EVERY offered point a copy of the directory is rolled back with
// scorch.Rollback, opened with bleve.Open, observed, written to and observed
// again; TLC (TraceCrash.tla) judges points and contents.
package c13

import (
	"fmt"
	"math/rand"
	"os"
	"os/exec"
	"path/filepath"
	"strconv"
	"strings"
	"time"

	"github.com/blevesearch/bleve/v2/index/scorch"

	"verif/harness/internal/core"
	"verif/harness/internal/sx"
)

func init() {
	core.Register(&core.Check{Prop: "C13", Level: "model_checking", Run: run})
}

func seqOf(p *scorch.RollbackPoint) int {
	v := p.GetInternal([]byte("seq"))
	if v == nil {
		return 0
	}
	n, _ := strconv.Atoi(strings.TrimPrefix(string(v), "i"))
	return n
}

func copyDir(src, dst string) error {
	return exec.Command("cp", "-r", src, dst).Run()
}

type outcome struct {
	Name    string
	Records []any
	Points  int
	Seqs    []any
}

func runOne(c *core.Ctx, name string, wl sx.Workload, keep int, seed int64, settle bool, pause time.Duration, reopen bool) (*outcome, error) {
	return runHistory(c, name, wl, keep, seed, settle, pause, reopen, 0)
}

// runHistory executes one history, lists the rollback points of the closed index
// and rolls a copy back to each of them.  directed = the "in-memory merge
// overtaken by a batch" schedule (ScorchDisk: PMMWrite, IntroSegment, PMMIntro,
// PMMCommit): the persister is parked until two unpersisted segments exist, its
// in-memory merge is parked before the introduction until one more batch was
// introduced; the snapshot it then records under the OLD epoch must carry the
// old internal values.
//
// directedMode 2 = "the newest segment dropped out of the root before a restart":
// no merges, every batch persisted; a retained rollback point names a file whose
// id is larger than every id of the root the restarted index loads.
func runHistory(c *core.Ctx, name string, wl sx.Workload, keep int, seed int64, settle bool, pause time.Duration, reopen bool, directedMode int) (*outcome, error) {
	directed := directedMode == 1
	base := c.TempDir("c13")
	defer os.RemoveAll(base)
	dir := filepath.Join(base, "idx")
	r, err := sx.Start(dir, wl, seed, 0.3)
	if err != nil {
		return nil, err
	}
	rng := rand.New(rand.NewSource(seed))
	r.Think = 2 * time.Millisecond
	r.SetHolds(sx.DefaultHolds) // e.g. a batch introduced while the persister's in-memory merge is in flight
	if directed {
		r.Quiesce(20 * time.Second)
		r.SetHolds([]sx.HoldRule{
			{Point: "persist.loop", Until: "IntroSegment", Count: 1, Timeout: 10 * time.Second, Prob: 1, Once: true},
			{Point: "memmerge.beforeIntro", Until: "IntroSegment", Count: 1, Timeout: 10 * time.Second, Prob: 1, Once: true},
		})
	}
	heldReader := 0
	reopenAt := -1
	if reopen {
		reopenAt = len(wl.Batches) / 2 // a restart in the middle of the history
	}
	// single writer here: batches in order, with occasional settling so that
	// several distinct states get persisted and retained
	for bi, bs := range wl.Batches {
		if bi == reopenAt {
			r.Quiesce(20 * time.Second)
			if err := r.Reopen(); err != nil {
				_ = r.Close()
				return nil, fmt.Errorf("%s: reopen: %v", name, err)
			}
		}
		if _, err := r.Submit(bs); err != nil {
			_ = r.Close()
			return nil, err
		}
		if directedMode == 2 {
			r.Quiesce(20 * time.Second)
			continue
		}
		if directedMode == 4 {
			// two batches without documents arrive back to back while the persister is inside a
			// round: their root epochs are never persisted, and the purge round that releases them
			// must still go through
			if bi == 0 {
				r.Quiesce(20 * time.Second)
				r.SetHolds([]sx.HoldRule{{Point: "persist.begin", Until: "IntroSegment", Count: 2, Timeout: 5 * time.Second, Prob: 1, Once: true}})
			}
			if bi >= 3 {
				r.Quiesce(20 * time.Second)
			}
			continue
		}
		if directedMode == 3 {
			// a reader pins the state after the second batch for the rest of the history: its
			// snapshot stays recorded (never eligible) although it is not among the newest ones
			r.Quiesce(20 * time.Second)
			if bi == 1 {
				if id, err := r.OpenReader(); err == nil {
					heldReader = id
				}
			}
			continue
		}
		if directed {
			// batches 1,2: the parked persister lets both pile up; batch 3 is submitted
			// once the in-memory merge waits before its introduction
			if bi == 1 {
				r.WaitParked("memmerge.beforeIntro", 1, 10*time.Second)
			}
			if bi >= 2 {
				r.Quiesce(20 * time.Second)
			}
			continue
		}
		switch rng.Intn(4) {
		case 0:
			r.Quiesce(20 * time.Second)
		case 1:
			_ = r.ForceMerge()
		}
		if pause > 0 {
			time.Sleep(pause/2 + time.Duration(rng.Int63n(int64(pause))))
		}
	}
	// "settle" nudges the loops until the purger has caught up (the retained set
	// then honours numSnapshotsToKeep but tends to hold copies of the final
	// state); without it the retained points are more diverse
	if heldReader != 0 {
		r.CloseReader(heldReader)
	}
	settled := false
	if settle {
		settled = r.Settle(30 * time.Second)
	} else {
		settled = r.Quiesce(30 * time.Second)
	}
	if err := r.Close(); err != nil {
		return nil, err
	}
	if !settled {
		return nil, fmt.Errorf("%s: index did not settle", name)
	}
	recs := sx.CrashRecords(r.Rec.Events())
	nsub := len(wl.Batches)
	store := sx.StoreDir(dir)
	pts, err := scorch.RollbackPoints(store)
	if err != nil {
		return nil, fmt.Errorf("%s: RollbackPoints: %v", name, err)
	}
	seqs := []any{}
	for _, p := range pts {
		seqs = append(seqs, seqOf(p))
	}
	recs = append(recs, map[string]any{"ev": "Points", "seqs": seqs, "keep": keep, "settled": settle})
	out := &outcome{Name: name, Points: len(pts), Seqs: seqs}
	for i, p := range pts {
		cp := filepath.Join(base, fmt.Sprintf("rb-%d", i))
		if err := copyDir(dir, cp); err != nil {
			return nil, err
		}
		// the point must be taken from the copy's own bolt (same epochs)
		cpts, err := scorch.RollbackPoints(sx.StoreDir(cp))
		if err != nil || len(cpts) != len(pts) {
			return nil, fmt.Errorf("%s: RollbackPoints on copy: %v", name, err)
		}
		if err := scorch.Rollback(sx.StoreDir(cp), cpts[i]); err != nil {
			recs = append(recs, map[string]any{"ev": "Recovered", "kind": "rollback", "min": 0, "point": seqOf(p), "opened": false,
				"docs": []any{}, "seq": 0, "count": 0, "matchall": []any{}, "err": err.Error()})
			continue
		}
		rec, cont, idx := sx.RecoveredRecord(cp, "rollback", map[string]any{"point": seqOf(p)})
		recs = append(recs, rec)
		if idx != nil {
			// later batches are gone completely and the index accepts new writes
			nb := sx.BatchSpec{B: nsub + 1, W: 1, Puts: []string{"b", "d"}, Dels: []string{"a"}}
			batch, err := sx.BuildBatch(idx, nb, nil)
			if err == nil {
				err = idx.Batch(batch)
			}
			pw := map[string]any{"ev": "PostWrite", "b": nb.B, "puts": nb.Puts, "dels": nb.Dels, "docs": []any{}, "prev": cont.Docs, "seq": -1, "count": -1}
			if err == nil {
				if after, err := sx.ObserveContent(idx); err == nil {
					pw["docs"], pw["seq"], pw["count"] = after.Docs, after.Seq, after.Count
				}
			}
			recs = append(recs, pw)
			_ = idx.Close()
		}
		_ = os.RemoveAll(cp)
	}
	out.Records = recs
	return out, nil
}

func run(c *core.Ctx) error {
	c.SetRule("one evaluation = one rollback point of a finished history (batches tagged with internal key seq; numSnapshotsToKeep 1..3; safe/unsafe; settling pauses and forced merges between batches): directory copied, scorch.Rollback to the point, bleve.Open, full observation, one more batch, observation; plus one Points record per history. " +
		"distinct_nontrivial = distinct (history, point seq, recovered content) with a non-empty recovered content")
	// memmerge: the persister's in-memory merge persists an equivalent snapshot under the
	// OLD epoch while batches keep arriving (EveryBoltIsAState, RollbackOK with KeepN = 2)
	cfgs := []string{"ScorchDisk_mc_disk.cfg", "ScorchDisk_mc_keep2.cfg", "ScorchDisk_mc_memmerge.cfg"}
	if c.Thorough() {
		cfgs = append(cfgs, "ScorchDisk_mc_keep2_thorough.cfg", "ScorchDisk_mc_memmerge_thorough.cfg")
	}
	for _, cfg := range cfgs {
		if _, ok := c.ModelCheck("ScorchDisk", cfg, core.Workers(8), core.Timeout(25*time.Minute), core.Heap(8000)); !ok {
			return nil
		}
	}
	rng := rand.New(rand.NewSource(c.Seed * 17))
	var outs []*outcome
	n := c.Pick(12, 60)
	for i := 0; i < n; i++ {
		keep := 1 + i%6
		safe := i%2 == 0
		kv := map[string]interface{}{"numSnapshotsToKeep": keep}
		if i%5 == 4 {
			kv["scorchPersisterOptions"] = map[string]interface{}{"NumPersisterWorkers": 2, "MaxSizeInMemoryMergePerWorker": 1}
		}
		settle := i%2 == 0
		var pause time.Duration
		if i%3 != 0 && i%4 >= 2 {
			// time-sampled retention: points spread over the history
			kv["rollbackSamplingInterval"] = "25ms"
			pause = 20 * time.Millisecond
		}
		wl := sx.RandomWorkload(rng, c.Pick(10, 20), 1, safe, kv)
		reopen := i%3 == 2 // a restart in the middle (keep = 3 or 6 there: older snapshots are inherited)
		wipe := i%4 == 1 || i%6 == 2
		if wipe {
			// batches that delete everything: whole segments (also the newest ones) drop out of
			// the root while retained rollback points still name their files
			for _, k := range []int{len(wl.Batches) / 3, len(wl.Batches)/2 - 1, len(wl.Batches) - 3} {
				if k >= 0 && k < len(wl.Batches) {
					wl.Batches[k].Puts = []string{}
					wl.Batches[k].Dels = []string{"a", "b", "c", "d"}
				}
			}
		}
		name := fmt.Sprintf("history-%d(keep=%d,safe=%v,settle=%v,sampling=%v,reopen=%v,wipe=%v)", i, keep, safe, settle, pause > 0, reopen, wipe)
		o, err := runOne(c, name, wl, keep, c.Seed*100+int64(i), settle, pause, reopen)
		if err != nil {
			return err
		}
		c.Logf("%s: %d rollback points %v", name, o.Points, o.Seqs)
		outs = append(outs, o)
	}
	// the directed "in-memory merge overtaken by a batch" schedule
	for k := 0; k < c.Pick(2, 6); k++ {
		wl := sx.Workload{Writers: 1, Safe: false, KVConfig: map[string]interface{}{"unsafe_batch": true, "numSnapshotsToKeep": 8},
			Batches: []sx.BatchSpec{{B: 1, W: 1, Puts: []string{"a"}, Dels: []string{}}, {B: 2, W: 1, Puts: []string{"b"}, Dels: []string{}},
				{B: 3, W: 1, Puts: []string{"c"}, Dels: []string{"a"}}}}
		name := fmt.Sprintf("directed-memmerge-overtaken-%d", k)
		o, err := runHistory(c, name, wl, 8, c.Seed*1000+int64(k), false, 0, false, 1)
		if err != nil {
			return err
		}
		c.Logf("%s: %d rollback points %v", name, o.Points, o.Seqs)
		outs = append(outs, o)
	}
	// document-less batches back to back while the persister is busy
	for k := 0; k < c.Pick(2, 4); k++ {
		bs := func(b int, puts, dels []string) sx.BatchSpec { return sx.BatchSpec{B: b, W: 1, Puts: puts, Dels: dels} }
		wl := sx.Workload{Writers: 1, Safe: false, KVConfig: map[string]interface{}{"unsafe_batch": true, "numSnapshotsToKeep": 2},
			Batches: []sx.BatchSpec{bs(1, []string{"a"}, []string{}), bs(2, []string{}, []string{}), bs(3, []string{}, []string{}), bs(4, []string{}, []string{}),
				bs(5, []string{"b"}, []string{}), bs(6, []string{"c"}, []string{}), bs(7, []string{}, []string{"a"}), bs(8, []string{"d"}, []string{})}}
		name := fmt.Sprintf("directed-documentless-batches-%d", k)
		o, err := runHistory(c, name, wl, 2, c.Seed*1000+300+int64(k), true, 0, false, 4)
		if err != nil {
			return err
		}
		c.Logf("%s: %d rollback points %v", name, o.Points, o.Seqs)
		outs = append(outs, o)
	}
	// a reader held across the history pins an old recorded state
	for k := 0; k < c.Pick(1, 3); k++ {
		kv := map[string]interface{}{"numSnapshotsToKeep": 2}
		wl := sx.RandomWorkload(rng, 9, 1, true, kv)
		name := fmt.Sprintf("directed-reader-pins-an-old-point-%d", k)
		o, err := runHistory(c, name, wl, 2, c.Seed*1000+200+int64(k), false, 0, false, 3)
		if err != nil {
			return err
		}
		c.Logf("%s: %d rollback points %v", name, o.Points, o.Seqs)
		outs = append(outs, o)
	}
	// the directed "newest segment dropped, then restart" history
	{
		bs := func(b int, puts, dels []string) sx.BatchSpec { return sx.BatchSpec{B: b, W: 1, Puts: puts, Dels: dels} }
		wl := sx.Workload{Writers: 1, Safe: true, KVConfig: map[string]interface{}{"numSnapshotsToKeep": 16,
			"scorchMergePlanOptions": map[string]interface{}{"FloorSegmentSize": 1}}, // passive background planner
			// segment ids: 2 {a,b}, 3 {c}, 4 {d}, (5: delete-only, no file); after the restart the root
			// holds segment 2 only while the retained points still name the files 3 and 4
			Batches: []sx.BatchSpec{bs(1, []string{"a", "b"}, []string{}), bs(2, []string{"c"}, []string{}), bs(3, []string{"d"}, []string{}),
				bs(4, []string{}, []string{"c", "d"}),
				bs(5, []string{"d"}, []string{}), bs(6, []string{"c"}, []string{}), bs(7, []string{"a"}, []string{}), bs(8, []string{}, []string{"b"})}}
		name := "directed-newest-segment-dropped-then-restart"
		o, err := runHistory(c, name, wl, 16, c.Seed*1000+77, false, 0, true, 2)
		if err != nil {
			return err
		}
		c.Logf("%s: %d rollback points %v", name, o.Points, o.Seqs)
		if os.Getenv("VERIF_C13_DEBUG") != "" {
			for _, r := range o.Records {
				m := r.(map[string]any)
				if m["ev"] == "Recovered" {
					c.Logf("  rollback to %v -> opened=%v docs=%v seq=%v err=%v", m["point"], m["opened"], m["docs"], m["seq"], m["err"])
				}
			}
		}
		outs = append(outs, o)
	}
	runs := make([][]any, len(outs))
	for i, o := range outs {
		runs[i] = o.Records
		for _, r := range o.Records {
			m := r.(map[string]any)
			if m["ev"] == "MemMergeEquiv" {
				c.AddExtra("equivalent_snapshots_judged", 1)
			}
			if m["ev"] == "Recovered" {
				c.Eval(1)
				if d, ok := m["docs"].([][]any); ok && len(d) > 0 {
					c.Distinct(core.Canon([]any{o.Name, m["point"], m["docs"]}))
				}
			}
		}
	}
	if len(outs) > 0 {
		var pts, rec any
		for _, r := range outs[len(outs)-1].Records {
			m := r.(map[string]any)
			if m["ev"] == "Points" {
				pts = m
			}
			if m["ev"] == "Recovered" && rec == nil {
				rec = m
			}
		}
		c.Sample(map[string]any{"history": outs[len(outs)-1].Name, "points": pts, "first_rollback": rec})
	}
	sx.JudgeRuns(c, runs, func(inv string, run int, text string) {
		c.Violation("c13/"+inv, fmt.Sprintf("%s violated in %s: %s", inv, outs[run].Name, text), map[string]any{"scenario": outs[run].Name, "records": outs[run].Records})
	})
	c.SetExhaustive(false)
	return nil
}
