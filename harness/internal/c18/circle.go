package c18

import (
	"fmt"
	"sort"
	"time"

	"github.com/blevesearch/bleve/v2"
	"github.com/blevesearch/bleve/v2/index/scorch"
	"github.com/blevesearch/bleve/v2/search/query"

	"verif/harness/internal/core"
	"verif/harness/internal/tlaval"
	"verif/harness/internal/tlc"
)

// Circles on great circles whose arithmetic the model can do (spec/GeoCircle.tla):
// the equator across the date line and the meridians 0/180 across the north
// pole.  TLC enumerates (centre, radius) with the documents that must and must
// not be returned; every state is replayed as a real distance query.

type cdoc struct {
	Fam      string
	Lon, Lat int // millidegrees
}

func (d cdoc) id() string { return fmt.Sprintf("%s_%d_%d", d.Fam, d.Lon, d.Lat) }

func cdocOf(v any) cdoc {
	return cdoc{Fam: tlaval.Str(tlaval.Field(v, "fam")), Lon: tlaval.Int(tlaval.Field(v, "lon")), Lat: tlaval.Int(tlaval.Field(v, "lat"))}
}

type circleCase struct {
	Centre  cdoc
	Radius  int
	Must    []string
	MustNot []string
}

// taggedDoc: a third of the documents carry tag:x (a sparse clause for conjunctions)
func taggedDoc(d cdoc) bool { return ((d.Lon/5)+(d.Lat/5))%3 == 0 }

func openCircleIndex(eng string, docs []cdoc) (bleve.Index, error) {
	m := bleve.NewIndexMapping()
	dm := bleve.NewDocumentMapping()
	dm.AddFieldMappingsAt("loc", bleve.NewGeoPointFieldMapping())
	m.DefaultMapping = dm
	var idx bleve.Index
	var err error
	switch eng {
	case "upsidedown":
		idx, err = bleve.NewMemOnly(m)
	case "scorch":
		idx, err = bleve.NewUsing("", m, scorch.Name, scorch.Name, nil)
	case "scorch-s2":
		idx, err = bleve.NewUsing("", m, scorch.Name, scorch.Name, map[string]interface{}{"spatialPlugin": "s2"})
	default:
		return nil, fmt.Errorf("unknown engine %q", eng)
	}
	if err != nil {
		return nil, err
	}
	b := idx.NewBatch()
	for _, d := range docs {
		doc := map[string]interface{}{"loc": map[string]interface{}{"lon": float64(d.Lon) / 1000, "lat": float64(d.Lat) / 1000}}
		if taggedDoc(d) {
			doc["tag"] = "x"
		}
		if err := b.Index(d.id(), doc); err != nil {
			return nil, err
		}
	}
	if err := idx.Batch(b); err != nil {
		return nil, err
	}
	return idx, nil
}

func circles(c *core.Ctx) error {
	var cases []circleCase
	docSet := map[string]cdoc{}
	res, err := tlc.DumpStates(c.TLCOpts("GeoCircle", "GeoCircle_mc.cfg", core.Workers(2), core.Timeout(10*time.Minute)), func(st tlaval.State) error {
		cs := circleCase{Centre: cdocOf(st["centre"]), Radius: tlaval.Int(st["radius"])}
		docSet[cs.Centre.id()] = cs.Centre
		for _, d := range tlaval.List(st["must"]) {
			cs.Must = append(cs.Must, cdocOf(d).id())
			docSet[cdocOf(d).id()] = cdocOf(d)
		}
		for _, d := range tlaval.List(st["mustnot"]) {
			cs.MustNot = append(cs.MustNot, cdocOf(d).id())
			docSet[cdocOf(d).id()] = cdocOf(d)
		}
		cases = append(cases, cs)
		return nil
	})
	c.Account("GeoCircle", "GeoCircle_mc.cfg", "exhaustive+dump", res)
	if err != nil {
		return err
	}
	if res == nil || !res.OK {
		c.Inconclusive("GeoCircle: the model's own invariants do not hold or TLC failed")
		return nil
	}
	if len(cases) == 0 {
		return fmt.Errorf("GeoCircle: no states dumped")
	}
	var docs []cdoc
	for _, d := range docSet {
		docs = append(docs, d)
	}
	sort.Slice(docs, func(i, j int) bool { return docs[i].id() < docs[j].id() })
	crossing := 0
	for _, eng := range engines {
		idx, err := openCircleIndex(eng, docs)
		if err != nil {
			return err
		}
		for _, cs := range cases {
			q := bleve.NewGeoDistanceQuery(float64(cs.Centre.Lon)/1000, float64(cs.Centre.Lat)/1000, fmt.Sprintf("%dkm", cs.Radius))
			q.SetField("loc")
			req := bleve.NewSearchRequestOptions(q, len(docs)+5, 0, false)
			sr, err := idx.Search(req)
			c.Eval(1)
			if err != nil {
				c.Violation("c18/circle/error:"+eng, fmt.Sprintf("%s: distance query centre (%v) radius %dkm failed: %v", eng, cs.Centre, cs.Radius, err), map[string]any{"kind": "circle", "eng": eng, "case": cs})
				continue
			}
			got := map[string]bool{}
			for _, h := range sr.Hits {
				got[h.ID] = true
			}
			var missed, extra []string
			for _, id := range cs.Must {
				if !got[id] {
					missed = append(missed, id)
				}
			}
			for _, id := range cs.MustNot {
				if got[id] {
					extra = append(extra, id)
				}
			}
			sideOther := false
			for _, id := range cs.Must {
				d := docSet[id]
				if (d.Lon < 0) != (cs.Centre.Lon < 0) || (cs.Centre.Fam == "pole" && d.Lon != cs.Centre.Lon) {
					sideOther = true
				}
			}
			if sideOther && eng == engines[0] {
				crossing++
				c.Distinct(fmt.Sprintf("circle|%s|%d", cs.Centre.id(), cs.Radius))
			}
			where := "equator"
			if cs.Centre.Fam == "pole" {
				where = "pole"
			}
			if len(missed) > 0 {
				c.Violation(fmt.Sprintf("c18/circle/missed:%s:%s", where, eng), fmt.Sprintf("%s: distance query centre lon %.3f lat %.3f radius %dkm misses %v, which lie more than 1%% inside the circle (spec/GeoCircle.tla)", eng, float64(cs.Centre.Lon)/1000, float64(cs.Centre.Lat)/1000, cs.Radius, missed),
					map[string]any{"kind": "circle", "eng": eng, "case": cs, "missed": missed})
			}
			if len(extra) > 0 {
				c.Violation(fmt.Sprintf("c18/circle/extra:%s:%s", where, eng), fmt.Sprintf("%s: distance query centre lon %.3f lat %.3f radius %dkm returns %v, which lie more than 1%% outside the circle (spec/GeoCircle.tla)", eng, float64(cs.Centre.Lon)/1000, float64(cs.Centre.Lat)/1000, cs.Radius, extra),
					map[string]any{"kind": "circle", "eng": eng, "case": cs, "extra": extra})
			}
		}
		idx.Close()
	}
	c.AddExtra("circle_cases", int64(len(cases)))
	c.AddExtra("circle_cases_reaching_over_the_date_line_or_pole", int64(crossing))
	return nil
}

// Boxes at their edges (spec/GeoBoxEdge.tla): documents a few millidegrees inside and
// outside every edge of boxes, two of which cross the date line; each box is asked for
// alone and as one clause of a conjunction (so that the filtering searcher is advanced).
func boxEdges(c *core.Ctx) error {
	type bcase struct {
		L, R, B, T    int
		Must, MustNot []string
	}
	var cases []bcase
	docSet := map[string]cdoc{}
	docOf := func(v any) cdoc {
		return cdoc{Fam: "edge", Lon: tlaval.Int(tlaval.Field(v, "lon")), Lat: tlaval.Int(tlaval.Field(v, "lat"))}
	}
	res, err := tlc.DumpStates(c.TLCOpts("GeoBoxEdge", "GeoBoxEdge_mc.cfg", core.Workers(2), core.Timeout(10*time.Minute)), func(st tlaval.State) error {
		bx := st["box"]
		cs := bcase{L: tlaval.Int(tlaval.Field(bx, "l")), R: tlaval.Int(tlaval.Field(bx, "r")), B: tlaval.Int(tlaval.Field(bx, "b")), T: tlaval.Int(tlaval.Field(bx, "t"))}
		for _, d := range tlaval.List(st["must"]) {
			cs.Must = append(cs.Must, docOf(d).id())
			docSet[docOf(d).id()] = docOf(d)
		}
		for _, d := range tlaval.List(st["mustnot"]) {
			cs.MustNot = append(cs.MustNot, docOf(d).id())
			docSet[docOf(d).id()] = docOf(d)
		}
		cases = append(cases, cs)
		return nil
	})
	c.Account("GeoBoxEdge", "GeoBoxEdge_mc.cfg", "exhaustive+dump", res)
	if err != nil {
		return err
	}
	if res == nil || !res.OK {
		c.Inconclusive("GeoBoxEdge: the model's own invariants do not hold or TLC failed")
		return nil
	}
	var docs []cdoc
	for _, d := range docSet {
		docs = append(docs, d)
	}
	sort.Slice(docs, func(i, j int) bool { return docs[i].id() < docs[j].id() })
	for _, eng := range engines {
		idx, err := openCircleIndex(eng, docs)
		if err != nil {
			return err
		}
		for _, cs := range cases {
			for _, mode := range []int{0, 1, 2} {
				conj := mode > 0
				bq := bleve.NewGeoBoundingBoxQuery(float64(cs.L)/1000, float64(cs.T)/1000, float64(cs.R)/1000, float64(cs.B)/1000)
				bq.SetField("loc")
				var q query.Query = bq
				must, mustnot := cs.Must, cs.MustNot
				if mode == 1 {
					q = bleve.NewConjunctionQuery(bleve.NewMatchAllQuery(), bq)
				}
				if mode == 2 {
					// a sparse second clause: the conjunction leads with it and ADVANCES the box searcher
					tq := bleve.NewTermQuery("x")
					tq.SetField("tag")
					q = bleve.NewConjunctionQuery(tq, bq)
					must, mustnot = nil, nil
					for _, id := range cs.Must {
						if taggedDoc(docSet[id]) {
							must = append(must, id)
						} else {
							mustnot = append(mustnot, id)
						}
					}
					mustnot = append(mustnot, cs.MustNot...)
				}
				sr, err := idx.Search(bleve.NewSearchRequestOptions(q, len(docs)+5, 0, false))
				c.Eval(1)
				if err != nil {
					c.Violation("c18/box-edge/error:"+eng, fmt.Sprintf("%s: box query %+v failed: %v", eng, cs, err), map[string]any{"kind": "box-edge", "eng": eng})
					continue
				}
				got := map[string]bool{}
				for _, h := range sr.Hits {
					got[h.ID] = true
				}
				var missed, extra []string
				for _, id := range must {
					if !got[id] {
						missed = append(missed, id)
					}
				}
				for _, id := range mustnot {
					if got[id] {
						extra = append(extra, id)
					}
				}
				where := "plain"
				if cs.L > cs.R {
					where = "dateline"
				}
				how := []string{"alone", "under-conjunction", "advanced-by-a-sparse-clause"}[mode]
				if len(missed) > 0 {
					c.Violation(fmt.Sprintf("c18/box-edge/missed:%s:%s:%s", where, how, eng), fmt.Sprintf("%s: box lon [%.3f, %.3f] lat [%.3f, %.3f] (%s) misses %v, which lie at least 5 millidegrees inside (spec/GeoBoxEdge.tla)", eng, float64(cs.L)/1000, float64(cs.R)/1000, float64(cs.B)/1000, float64(cs.T)/1000, how, head(missed, 6)),
						map[string]any{"kind": "box-edge", "eng": eng, "box": []int{cs.L, cs.R, cs.B, cs.T}, "conj": conj, "missed": missed})
				}
				if len(extra) > 0 {
					c.Violation(fmt.Sprintf("c18/box-edge/extra:%s:%s:%s", where, how, eng), fmt.Sprintf("%s: box lon [%.3f, %.3f] lat [%.3f, %.3f] (%s) returns %v, which lie at least 5 millidegrees outside (spec/GeoBoxEdge.tla)", eng, float64(cs.L)/1000, float64(cs.R)/1000, float64(cs.B)/1000, float64(cs.T)/1000, how, head(extra, 6)),
						map[string]any{"kind": "box-edge", "eng": eng, "box": []int{cs.L, cs.R, cs.B, cs.T}, "conj": conj, "extra": extra})
				}
				c.Distinct(fmt.Sprintf("boxedge|%d|%d|%v", cs.L, cs.B, mode))
			}
		}
		idx.Close()
	}
	c.AddExtra("box_edge_documents", int64(len(docs)))
	return nil
}
