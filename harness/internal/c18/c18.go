// Package c18 checks the decidable part of property C18 (geo point queries
// match exactly the points inside the shape) - see DESIGN.md section 4 C18 and
// section 5: the quantised-grid cover argument for bounding boxes (date-line
// wrap, pole rows), rectangle-shaped polygons, the two distance classes that
// need no real-valued geometry, "co-located first" for the distance sort, and
// the Morton encoding.
//
// The model decides: spec/GeoGrid.tla (transcription of ComputeGeoRange /
// relateAndRecurse, the rectangle filter and the date-line split on an NB-bit
// lattice) is model-checked by TLC via spec/GeoGridMC.tla for every box.
// The code is bound, engine A: every query state TLC enumerates, together with
// the hit set the algorithm model computes, is replayed into real indexes
// (upsidedown, scorch, scorch with the s2 plugin). Model lattice point (x,y)
// becomes a (seeded) point well inside cell (x,y) of the 2^NB x 2^NB degree
// grid, model edge e the cell boundary, so every point is at least 0.15 of a
// cell (> 1.6 degrees) away from every box edge. Engine B: real Morton codes
// are judged by TLC (spec/trace/JudgeGeo.tla).
package c18

import (
	"encoding/json"
	"fmt"
	"math"
	"os"
	"sort"
	"strings"
	"sync"
	"sync/atomic"
	"time"

	"github.com/blevesearch/bleve/v2"
	"github.com/blevesearch/bleve/v2/geo"
	"github.com/blevesearch/bleve/v2/index/scorch"
	"github.com/blevesearch/bleve/v2/numeric"
	"github.com/blevesearch/bleve/v2/search"
	"github.com/blevesearch/bleve/v2/search/query"

	index "github.com/blevesearch/bleve_index_api"

	"verif/harness/internal/core"
	"verif/harness/internal/tlaval"
	"verif/harness/internal/tlc"
)

func init() {
	core.Register(&core.Check{Prop: "C18", Level: "exploration", Run: run, Replay: replay})
}

// ---- the grid

type grid struct {
	nb   int
	seed int64 // 0: points at the exact cell centres
}

func (g grid) side() int             { return 1 << g.nb }
func (g grid) lonEdge(e int) float64 { return -180 + 360*float64(e)/float64(g.side()) }
func (g grid) latEdge(e int) float64 { return -90 + 180*float64(e)/float64(g.side()) }
func (g grid) lonCell(x int) float64 { return -180 + 360*(float64(x)+0.5)/float64(g.side()) }
func (g grid) latCell(y int) float64 { return -90 + 180*(float64(y)+0.5)/float64(g.side()) }

// frac places the point of model cell (x,y) inside its degree cell: a seeded
// position in [0.15, 0.85] of the cell per dimension (exact centres would all
// take the same 0111.. path through the real subdivision below the grid), a
// quarter of the cells keep the exact centre.
func (g grid) frac(x, y, dim int) float64 {
	if g.seed == 0 {
		return 0.5
	}
	h := uint64(g.seed)*0x9E3779B97F4A7C15 + uint64(x)*0xBF58476D1CE4E5B9 + uint64(y)*0x94D049BB133111EB + uint64(dim)*0xD6E8FEB86659FD93
	h ^= h >> 31
	h *= 0xD6E8FEB86659FD93
	h ^= h >> 29
	if h%4 == 0 {
		return 0.5
	}
	return 0.15 + 0.7*float64((h>>8)%1001)/1000
}
func (g grid) lonPoint(p point) float64 {
	return -180 + 360*(float64(p.X)+g.frac(p.X, p.Y, 0))/float64(g.side())
}
func (g grid) latPoint(p point) float64 {
	return -90 + 180*(float64(p.Y)+g.frac(p.X, p.Y, 1))/float64(g.side())
}

type point struct{ X, Y int }

// documents of the model: {p} for every lattice point and {p, opposite(p)}
type docSet struct {
	ids  []string
	pts  map[string][]point // in the order handed to bleve
	byKy map[string]string  // canonical point-set key -> id
}

func keyOf(ps []point) string {
	s := append([]point{}, ps...)
	sort.Slice(s, func(i, j int) bool { return s[i].X < s[j].X || (s[i].X == s[j].X && s[i].Y < s[j].Y) })
	var sb strings.Builder
	for _, p := range s {
		fmt.Fprintf(&sb, "%d,%d;", p.X, p.Y)
	}
	return sb.String()
}

func modelDocs(g grid) *docSet {
	ds := &docSet{pts: map[string][]point{}, byKy: map[string]string{}}
	n := g.side()
	add := func(id string, ps []point) {
		if _, dup := ds.byKy[keyOf(ps)]; dup {
			return
		}
		ds.ids = append(ds.ids, id)
		ds.pts[id] = ps
		ds.byKy[keyOf(ps)] = id
	}
	for x := 0; x < n; x++ {
		for y := 0; y < n; y++ {
			add(fmt.Sprintf("s_%d_%d", x, y), []point{{x, y}})
		}
	}
	for x := 0; x < n; x++ {
		for y := 0; y < n; y++ {
			p, o := point{x, y}, point{n - 1 - x, n - 1 - y}
			ps := []point{p, o}
			if (x+y)%2 == 1 { // both orders of the two values occur
				ps = []point{o, p}
			}
			add(fmt.Sprintf("p_%d_%d", x, y), ps)
		}
	}
	return ds
}

var engines = []string{"upsidedown", "scorch", "scorch-s2"}

func openIndex(eng string, g grid, ds *docSet) (bleve.Index, error) {
	m := bleve.NewIndexMapping()
	dm := bleve.NewDocumentMapping()
	dm.AddFieldMappingsAt("loc", bleve.NewGeoPointFieldMapping())
	m.DefaultMapping = dm
	var idx bleve.Index
	var err error
	switch eng {
	case "upsidedown":
		idx, err = bleve.NewMemOnly(m)
	case "scorch":
		idx, err = bleve.NewUsing("", m, scorch.Name, scorch.Name, nil)
	case "scorch-s2":
		idx, err = bleve.NewUsing("", m, scorch.Name, scorch.Name, map[string]interface{}{"spatialPlugin": "s2"})
	default:
		return nil, fmt.Errorf("unknown engine %q", eng)
	}
	if err != nil {
		return nil, err
	}
	b := idx.NewBatch()
	for i, id := range ds.ids {
		var vs []interface{}
		for k, p := range ds.pts[id] {
			// the accepted input forms of a geo point alternate
			lon, lat := g.lonPoint(p), g.latPoint(p)
			_ = k
			switch i % 3 {
			case 0:
				vs = append(vs, map[string]interface{}{"lon": lon, "lat": lat})
			case 1:
				vs = append(vs, []interface{}{lon, lat})
			default:
				vs = append(vs, map[string]interface{}{"lng": lon, "lat": lat})
			}
		}
		var doc map[string]interface{}
		if len(vs) == 1 {
			doc = map[string]interface{}{"loc": vs[0], "r": 1.0}
		} else {
			doc = map[string]interface{}{"loc": vs, "r": 1.0}
		}
		if err := b.Index(id, doc); err != nil {
			return nil, err
		}
		if b.Size() >= 50 {
			if err := idx.Batch(b); err != nil {
				return nil, err
			}
			b = idx.NewBatch()
		}
	}
	if err := idx.Batch(b); err != nil {
		return nil, err
	}
	if n, _ := idx.DocCount(); int(n) != len(ds.ids) {
		return nil, fmt.Errorf("%s holds %d of %d documents", eng, n, len(ds.ids))
	}
	return idx, nil
}

type storedMismatch struct{ what string }

func (e *storedMismatch) Error() string { return e.what }

// checkStored compares the points decoded from the stored fields with the
// points handed to bleve. A different NUMBER of points means the harness used
// an input form bleve does not read as a point (plain error: inconclusive);
// a point that comes back more than 1e-6 degrees away is a failed round trip
// of the encoding (*storedMismatch: property-level).
func checkStored(idx bleve.Index, eng string, g grid, ds *docSet) error {
	for _, id := range ds.ids {
		doc, err := idx.Document(id)
		if err != nil || doc == nil {
			return fmt.Errorf("%s: document %s not retrievable: %v", eng, id, err)
		}
		var got [][2]float64
		doc.VisitFields(func(f index.Field) {
			if gp, ok := f.(index.GeoPointField); ok && f.Name() == "loc" {
				lon, _ := gp.Lon()
				lat, _ := gp.Lat()
				got = append(got, [2]float64{lon, lat})
			}
		})
		if len(got) != len(ds.pts[id]) {
			return fmt.Errorf("%s: document %s holds %d points, %d were handed in", eng, id, len(got), len(ds.pts[id]))
		}
		for _, p := range ds.pts[id] {
			lon, lat := g.lonPoint(p), g.latPoint(p)
			found := false
			for _, q := range got {
				if math.Abs(q[0]-lon) <= 1e-6 && math.Abs(q[1]-lat) <= 1e-6 {
					found = true
				}
			}
			if !found {
				return &storedMismatch{fmt.Sprintf("%s: document %s was given the point (%.7f,%.7f) but its stored field decodes to %v", eng, id, lon, lat, got)}
			}
		}
	}
	return nil
}

// ---- queries enumerated by TLC

type qcase struct {
	Kind                     string   `json:"kind"`
	Left, Right, Bottom, Top int      `json:",omitempty"`
	X, Y                     int      `json:",omitempty"`
	Expected                 []string `json:"expected"` // document ids, sorted (computed by TLC)
	NB                       int      `json:"nb"`
	Seed                     int64    `json:"seed"`
	Eng                      string   `json:"eng,omitempty"`
	Variant                  int      `json:"variant"`
}

func (q qcase) key() string {
	return fmt.Sprintf("%s/%d/%d/%d/%d/%d/%d/%d", q.Kind, q.NB, q.Left, q.Right, q.Bottom, q.Top, q.X, q.Y)
}

var tinyRadii = []string{"1m", "10m", "1km", "0.5mi"}
var hugeRadii = []string{"20100km", "25000km", "40075km", "13000mi"}

func buildQuery(g grid, q qcase) (query.Query, search.SortOrder) {
	switch q.Kind {
	case "box":
		bq := bleve.NewGeoBoundingBoxQuery(g.lonEdge(q.Left), g.latEdge(q.Top), g.lonEdge(q.Right), g.latEdge(q.Bottom))
		bq.SetField("loc")
		return bq, nil
	case "poly":
		c := []geo.Point{
			{Lon: g.lonEdge(q.Left), Lat: g.latEdge(q.Bottom)}, {Lon: g.lonEdge(q.Right), Lat: g.latEdge(q.Bottom)},
			{Lon: g.lonEdge(q.Right), Lat: g.latEdge(q.Top)}, {Lon: g.lonEdge(q.Left), Lat: g.latEdge(q.Top)}}
		// counter-clockwise ring, starting at any corner, optionally closed
		rot := q.Variant % 4
		c = append(c[rot:], c[:rot]...)
		if q.Variant%8 >= 4 {
			c = append(c, c[0])
		}
		pq := query.NewGeoBoundingPolygonQuery(c)
		pq.SetField("loc")
		return pq, nil
	case "tiny":
		dq := bleve.NewGeoDistanceQuery(g.lonPoint(point{q.X, q.Y}), g.latPoint(point{q.X, q.Y}), tinyRadii[q.Variant%len(tinyRadii)])
		dq.SetField("loc")
		return dq, nil
	case "all":
		dq := bleve.NewGeoDistanceQuery(g.lonPoint(point{q.X, q.Y}), g.latPoint(point{q.X, q.Y}), hugeRadii[q.Variant%len(hugeRadii)])
		dq.SetField("loc")
		return dq, nil
	case "sort":
		sg, err := search.NewSortGeoDistance("loc", "km", g.lonPoint(point{q.X, q.Y}), g.latPoint(point{q.X, q.Y}), q.Variant%2 == 1)
		if err != nil {
			panic(err)
		}
		return bleve.NewMatchAllQuery(), search.SortOrder{sg, &search.SortDocID{}}
	}
	panic("unknown query kind " + q.Kind)
}

// execute runs q on idx and returns the hit ids in the order returned.
func execute(idx bleve.Index, g grid, q qcase, ndocs int) ([]string, error) {
	bq, so := buildQuery(g, q)
	if q.Variant%2 == 1 && q.Kind != "sort" {
		// the same query as one clause of a conjunction whose other clause matches everything:
		// the answer is the same, but the geo searcher is now driven with Advance
		bq = bleve.NewConjunctionQuery(bleve.NewMatchAllQuery(), bq)
	}
	req := bleve.NewSearchRequestOptions(bq, ndocs+10, 0, false)
	if so != nil {
		if q.Variant%2 == 1 {
			// a leading sort key that is the same for every document (a numeric field): the
			// order is still the order by distance, but the distance key is no longer the first
			so = append(search.SortOrder{&search.SortField{Field: "r", Type: search.SortFieldAsNumber, Missing: search.SortFieldMissingLast}}, so...)
		}
		req.SortByCustom(so)
	}
	res, err := idx.Search(req)
	if err != nil {
		return nil, err
	}
	ids := make([]string, 0, len(res.Hits))
	seen := map[string]bool{}
	for _, h := range res.Hits {
		if seen[h.ID] {
			return nil, fmt.Errorf("document %s returned twice", h.ID)
		}
		seen[h.ID] = true
		ids = append(ids, h.ID)
	}
	return ids, nil
}

// compare returns "" if the real answer agrees with what the model computed.
func compare(q qcase, got []string) (class, what string) {
	if q.Kind == "sort" {
		// co-located single-point documents come first (last when descending)
		var singles []string
		for _, id := range got {
			if strings.HasPrefix(id, "s_") {
				singles = append(singles, id)
			}
		}
		n := len(q.Expected)
		if len(singles) < n {
			return "mismatch", fmt.Sprintf("only %d single-point documents returned", len(singles))
		}
		part := singles[:n]
		if q.Variant%2 == 1 {
			part = singles[len(singles)-n:]
		}
		part = append([]string{}, part...)
		sort.Strings(part)
		if strings.Join(part, ",") != strings.Join(q.Expected, ",") {
			return "mismatch", fmt.Sprintf("co-located documents %v are not at the near end of the distance order (found %v there)", q.Expected, part)
		}
		return "", ""
	}
	exp := map[string]bool{}
	for _, id := range q.Expected {
		exp[id] = true
	}
	var missing, extra []string
	gotSet := map[string]bool{}
	for _, id := range got {
		gotSet[id] = true
		if !exp[id] {
			extra = append(extra, id)
		}
	}
	for _, id := range q.Expected {
		if !gotSet[id] {
			missing = append(missing, id)
		}
	}
	if len(missing) == 0 && len(extra) == 0 {
		return "", ""
	}
	sort.Strings(missing)
	sort.Strings(extra)
	class = "mismatch"
	if len(extra) == 0 {
		multi := true
		for _, id := range missing {
			if !strings.HasPrefix(id, "p_") {
				multi = false
			}
		}
		if multi {
			class = "multi-point-doc-missed"
		}
	}
	return class, fmt.Sprintf("missing %v, unexpected %v (expected %d hits, got %d)", head(missing, 8), head(extra, 8), len(q.Expected), len(got))
}

func head(s []string, n int) []string {
	if len(s) > n {
		return append(append([]string{}, s[:n]...), fmt.Sprintf("...(%d)", len(s)))
	}
	return s
}

// fromState converts a TLC state of GeoGridMC into a query case.
func fromState(st tlaval.State, g grid, ds *docSet) (*qcase, error) {
	if tlaval.Str(st["phase"]) != "ready" {
		return nil, nil
	}
	qm := tlaval.Map(st["q"])
	q := &qcase{Kind: tlaval.Str(qm["kind"]), NB: g.nb, Seed: g.seed}
	switch q.Kind {
	case "box", "poly":
		q.Left, q.Right, q.Bottom, q.Top = tlaval.Int(qm["left"]), tlaval.Int(qm["right"]), tlaval.Int(qm["bottom"]), tlaval.Int(qm["top"])
	default:
		q.X, q.Y = tlaval.Int(qm["x"]), tlaval.Int(qm["y"])
	}
	for _, d := range tlaval.List(st["expected"]) {
		var ps []point
		for _, p := range tlaval.List(d) {
			xy := tlaval.List(p)
			ps = append(ps, point{tlaval.Int(xy[0]), tlaval.Int(xy[1])})
		}
		id, ok := ds.byKy[keyOf(ps)]
		if !ok {
			return nil, fmt.Errorf("the model returns a document %v the harness did not index", ps)
		}
		q.Expected = append(q.Expected, id)
	}
	sort.Strings(q.Expected)
	return q, nil
}

func run(c *core.Ctx) error {
	c.SetExhaustive(false)
	c.SetRule("distinct non-trivial = distinct (query kind, box/centre) states of GeoGridMC with a non-empty expected hit set, each replayed on three engines; plus distinct Morton-coded points")
	c.Assume("points lie inside the cells of the 2^NB x 2^NB degree grid, at least 0.15 of a cell (> 1.6 degrees) away from every cell boundary, and box edges are cell boundaries, so float rounding at edges cannot change membership")
	c.Assume("distance queries on the grid only with radius <= 1 km (selects exactly the co-located points; the nearest other point is > 20 km away) or >= 20100 km (selects all); circles of 5..500 km are decided on the equator (across the date line) and on the meridians 0/180 (over the north pole) only, with a 1% margin (spec/GeoCircle.tla); general polygons and true-distance order are not decided")

	nb := c.Pick(3, 4)
	cfg := fmt.Sprintf("GeoGridMC_n%d.cfg", nb)
	g := grid{nb, c.Seed}
	ds := modelDocs(g)
	idx := map[string]bleve.Index{}
	for _, eng := range engines {
		ix, err := openIndex(eng, g, ds)
		if err != nil {
			return fmt.Errorf("open %s: %v", eng, err)
		}
		defer ix.Close()
		idx[eng] = ix
		if err := checkStored(ix, eng, g, ds); err != nil {
			if sm, ok := err.(*storedMismatch); ok {
				c.Violation("c18/roundtrip/stored-point", sm.what, map[string]any{"kind": "stored", "nb": g.nb, "seed": g.seed, "eng": eng})
			} else {
				return err
			}
		}
	}
	if err := s2Active(c, idx["scorch-s2"], idx["scorch"]); err != nil {
		return err
	}

	// circles across the date line and over the pole (spec/GeoCircle.tla)
	if err := circles(c); err != nil {
		return err
	}
	if err := boxEdges(c); err != nil {
		return err
	}

	// a second model configuration (other term shifts, subdivision down to single points): model only
	var mwg sync.WaitGroup
	mwg.Add(1)
	go func() {
		defer mwg.Done()
		c.ModelCheck("GeoGridMC", "GeoGridMC_n3s3.cfg", core.Workers(2), core.Timeout(20*time.Minute))
	}()

	// Morton records (engine B), judged while the enumeration runs
	var merr error
	mwg.Add(1)
	go func() {
		defer mwg.Done()
		merr = mortonRecords(c)
	}()

	// engine A: TLC enumerates and decides the model; every ready state is replayed
	type job struct{ q qcase }
	jobs := make(chan qcase, 256)
	var wg sync.WaitGroup
	var statMu sync.Mutex
	var slow int64 // queries abandoned after 20 s
	kinds := map[string]int{}
	for w := 0; w < 6; w++ {
		wg.Add(1)
		go func() {
			defer wg.Done()
			for q := range jobs {
				for _, eng := range engines {
					q.Eng = eng
					if atomic.LoadInt64(&slow) >= 8 {
						continue // the covering computation has degenerated: the remaining queries are skipped
					}
					// a query answers in milliseconds; one that takes longer than the budget is
					// abandoned (counted, never a verdict) so that the others are still decided
					type answer struct {
						got []string
						err error
					}
					ach := make(chan answer, 1)
					go func(q qcase) {
						got, err := execute(idx[eng], g, q, len(ds.ids))
						ach <- answer{got, err}
					}(q)
					var got []string
					var err error
					select {
					case a := <-ach:
						got, err = a.got, a.err
					case <-time.After(20 * time.Second):
						atomic.AddInt64(&slow, 1)
						continue
					}
					c.Eval(1)
					if err != nil {
						c.Violation("c18/"+q.Kind+"/error", fmt.Sprintf("%s on %s: %v", q.key(), eng, err), q)
						continue
					}
					if class, what := compare(q, got); class != "" {
						c.Violation("c18/"+q.Kind+"/"+class, fmt.Sprintf("%s query %s on %s: %s", q.Kind, describe(g, q), eng, what), q)
					}
				}
				statMu.Lock()
				kinds[q.Kind]++
				statMu.Unlock()
			}
		}()
	}
	nStates, sampled := 0, map[string]bool{}
	var convErr error
	res, err := tlc.DumpStates(c.TLCOpts("GeoGridMC", cfg, core.Workers(c.Pick(4, 6)), core.Timeout(25*time.Minute)), func(st tlaval.State) error {
		q, err := fromState(st, g, ds)
		if err != nil {
			convErr = err
			return err
		}
		if q == nil {
			return nil
		}
		nStates++
		q.Variant = nStates
		if q.Kind == "all" && len(q.Expected) != len(ds.ids) {
			convErr = fmt.Errorf("model and harness disagree on the document set (%d vs %d)", len(q.Expected), len(ds.ids))
			return convErr
		}
		if len(q.Expected) > 0 {
			c.Distinct(q.key())
		}
		if !sampled[q.Kind] && len(q.Expected) > 0 && len(q.Expected) < 12 && nStates%5 == 0 {
			sampled[q.Kind] = true
			c.Sample(map[string]any{"query": describe(g, *q), "state": q})
		}
		jobs <- *q
		return nil
	})
	close(jobs)
	wg.Wait()
	c.Account("GeoGridMC", cfg, "exhaustive+dump", res)
	if convErr != nil {
		return convErr
	}
	if err != nil {
		return fmt.Errorf("TLC enumeration: %v", err)
	}
	if res == nil || !res.OK {
		txt := ""
		if res != nil {
			txt = res.ErrorText
		}
		c.Inconclusive("TLC did not pass GeoGridMC/" + cfg + ": " + strings.SplitN(txt, "\n", 3)[0])
		return nil
	}
	if n := atomic.LoadInt64(&slow); n > 0 {
		c.Extra("queries_abandoned_after_20s", n)
		if c.Violations() == 0 {
			c.Inconclusive(fmt.Sprintf("%d geo queries did not answer within 20 s (they answer in milliseconds on a sound tree); nothing else failed", n))
		}
	}
	c.Logf("model GeoGridMC/%s: %d distinct states, %d query states replayed on %d engines %v", cfg, res.Distinct, nStates, len(engines), kinds)
	c.Traces(nStates)
	c.Extra("replayed_states_by_kind", kinds)
	mwg.Wait()
	return merr
}

func describe(g grid, q qcase) string {
	switch q.Kind {
	case "box", "poly":
		return fmt.Sprintf("lon [%g,%g] lat [%g,%g] (edges %d..%d x %d..%d of the %dx%d grid)", g.lonEdge(q.Left), g.lonEdge(q.Right), g.latEdge(q.Bottom), g.latEdge(q.Top), q.Left, q.Right, q.Bottom, q.Top, g.side(), g.side())
	case "tiny":
		return fmt.Sprintf("distance %s around (%g,%g)", tinyRadii[q.Variant%len(tinyRadii)], g.lonPoint(point{q.X, q.Y}), g.latPoint(point{q.X, q.Y}))
	case "all":
		return fmt.Sprintf("distance %s around (%g,%g)", hugeRadii[q.Variant%len(hugeRadii)], g.lonPoint(point{q.X, q.Y}), g.latPoint(point{q.X, q.Y}))
	}
	return fmt.Sprintf("sort by distance from (%g,%g) desc=%v", g.lonPoint(point{q.X, q.Y}), g.latPoint(point{q.X, q.Y}), q.Variant%2 == 1)
}

// s2Active records whether the s2 configuration really indexes different terms.
func s2Active(c *core.Ctx, s2idx, plain bleve.Index) error {
	count := func(ix bleve.Index) (total, nonNumeric int, err error) {
		fd, err := ix.FieldDict("loc")
		if err != nil {
			return 0, 0, err
		}
		defer fd.Close()
		for {
			e, err := fd.Next()
			if err != nil || e == nil {
				return total, nonNumeric, err
			}
			total++
			if ok, _ := numeric.ValidPrefixCodedTerm(e.Term); !ok {
				nonNumeric++
			}
		}
	}
	t1, n1, err := count(s2idx)
	if err != nil {
		return err
	}
	t2, n2, err := count(plain)
	if err != nil {
		return err
	}
	c.Extra("s2_index_terms", map[string]int{"total": t1, "not_prefix_coded": n1})
	c.Extra("plain_index_terms", map[string]int{"total": t2, "not_prefix_coded": n2})
	if n1 == 0 || n2 != 0 {
		c.Inconclusive(fmt.Sprintf("the s2 plugin does not seem to be selected by config spatialPlugin=s2 (s2 index: %d/%d non-numeric terms, plain: %d/%d)", n1, t1, n2, t2))
	}
	return nil
}

// ---- Morton encoding (engine B)

func bits(v uint64, n int) []int {
	out := make([]int, n)
	for i := 0; i < n; i++ {
		out[i] = int(v>>uint(n-1-i)) & 1
	}
	return out
}

// nanoDeg: a difference in nano-degrees, clamped to what TLC's 32-bit integers hold
func nanoDeg(d float64) int {
	v := math.Round(d * 1e9)
	if v > 2e9 {
		v = 2e9
	}
	if v < -2e9 {
		v = -2e9
	}
	return int(v)
}

func mortonRecord(lon, lat float64, nb, cx, cy int) map[string]any {
	h := geo.MortonHash(lon, lat)
	return map[string]any{"kind": "morton", "hash": bits(h, 64),
		"lonq": bits(numeric.Deinterleave(h), 32), "latq": bits(numeric.Deinterleave(h>>1), 32),
		"elon": nanoDeg(lon - geo.MortonUnhashLon(h)), "elat": nanoDeg(lat - geo.MortonUnhashLat(h)),
		"nb": nb, "cx": cx, "cy": cy, "lon": fmt.Sprint(lon), "lat": fmt.Sprint(lat)}
}

func mortonRecords(c *core.Ctx) error {
	r := c.Rand
	var recs []any
	add := func(m map[string]any) {
		recs = append(recs, m)
		c.Distinct("morton/" + m["lon"].(string) + "/" + m["lat"].(string))
		c.Eval(1)
	}
	for _, lon := range []float64{-180, 180, 0, -179.99999999, 179.99999999, 1e-7, -1e-7, 90, -90} {
		for _, lat := range []float64{-90, 90, 0, -89.99999999, 89.99999999, 1e-7, -1e-7, 45} {
			add(mortonRecord(lon, lat, 0, 0, 0))
		}
	}
	n := c.Pick(600, 6000)
	for i := 0; i < n; i++ {
		switch i % 3 {
		case 0: // cell centres of grids up to 2^15 x 2^15
			nb := 1 + r.Intn(15)
			g := grid{nb, 0}
			x, y := r.Intn(g.side()), r.Intn(g.side())
			if i%12 == 0 { // corners and rim
				x, y = []int{0, g.side() - 1}[r.Intn(2)], []int{0, g.side() - 1}[r.Intn(2)]
			}
			add(mortonRecord(g.lonCell(x), g.latCell(y), nb, x, y))
		case 1:
			add(mortonRecord(r.Float64()*360-180, r.Float64()*180-90, 0, 0, 0))
		default: // next to a cell boundary of some grid
			nb := 1 + r.Intn(20)
			g := grid{nb, 0}
			lon := math.Nextafter(g.lonEdge(r.Intn(g.side()+1)), float64(r.Intn(3)-1)*1000)
			lat := math.Nextafter(g.latEdge(r.Intn(g.side()+1)), float64(r.Intn(3)-1)*1000)
			add(mortonRecord(math.Max(-180, math.Min(180, lon)), math.Max(-90, math.Min(90, lat)), 0, 0, 0))
		}
	}
	c.Sample(recs[len(recs)/2])
	// a leading pad keeps judged records off the judge's initial state
	pad := map[string]any{"kind": "pad"}
	bad, err := c.JudgeRecords("JudgeGeo", "JudgeGeo.cfg", append([]any{pad}, recs...), 10, core.Timeout(20*time.Minute))
	c.Traces(1)
	if err != nil {
		return err
	}
	for i, inv := range bad {
		rec := recs[i-1].(map[string]any)
		b, _ := json.Marshal(rec)
		c.Violation("c18/morton/"+inv, fmt.Sprintf("%s fails for the real Morton code of (%v,%v): %s", inv, rec["lon"], rec["lat"], b),
			map[string]any{"kind": "morton", "lon": rec["lon"], "lat": rec["lat"], "nb": rec["nb"], "cx": rec["cx"], "cy": rec["cy"]})
	}
	return nil
}

// ---- replay of a saved case

func replay(c *core.Ctx, path string) error {
	b, err := os.ReadFile(path)
	if err != nil {
		return err
	}
	var f struct {
		Replay json.RawMessage `json:"replay"`
	}
	if err := json.Unmarshal(b, &f); err != nil {
		return err
	}
	var kind struct {
		Kind string `json:"kind"`
	}
	_ = json.Unmarshal(f.Replay, &kind)
	c.SetRule("replay of one saved case")
	if kind.Kind == "morton" {
		var m struct {
			Lon, Lat   string
			NB, CX, CY int
		}
		var raw map[string]any
		_ = json.Unmarshal(f.Replay, &raw)
		var lon, lat float64
		fmt.Sscan(fmt.Sprint(raw["lon"]), &lon)
		fmt.Sscan(fmt.Sprint(raw["lat"]), &lat)
		_ = m
		nb, _ := raw["nb"].(float64)
		cx, _ := raw["cx"].(float64)
		cy, _ := raw["cy"].(float64)
		rec := mortonRecord(lon, lat, int(nb), int(cx), int(cy))
		c.Eval(1)
		c.Sample(rec)
		bad, err := c.JudgeRecords("JudgeGeo", "JudgeGeo.cfg", []any{map[string]any{"kind": "pad"}, rec}, 2)
		if err != nil {
			return err
		}
		for _, inv := range bad {
			c.Violation("c18/morton/"+inv, fmt.Sprintf("%s fails for the real Morton code of (%v,%v)", inv, lon, lat), raw)
		}
		return nil
	}
	if kind.Kind == "stored" {
		var st struct {
			NB   int    `json:"nb"`
			Seed int64  `json:"seed"`
			Eng  string `json:"eng"`
		}
		if err := json.Unmarshal(f.Replay, &st); err != nil {
			return err
		}
		g := grid{st.NB, st.Seed}
		ds := modelDocs(g)
		idx, err := openIndex(st.Eng, g, ds)
		if err != nil {
			return err
		}
		defer idx.Close()
		c.Eval(len(ds.ids))
		c.Sample(map[string]any{"stored points of": st.Eng, "documents": len(ds.ids)})
		if err := checkStored(idx, st.Eng, g, ds); err != nil {
			if sm, ok := err.(*storedMismatch); ok {
				c.Violation("c18/roundtrip/stored-point", sm.what, st)
				return nil
			}
			return err
		}
		return nil
	}
	var q qcase
	if err := json.Unmarshal(f.Replay, &q); err != nil {
		return err
	}
	g := grid{q.NB, q.Seed}
	ds := modelDocs(g)
	idx, err := openIndex(q.Eng, g, ds)
	if err != nil {
		return err
	}
	defer idx.Close()
	got, err := execute(idx, g, q, len(ds.ids))
	c.Eval(1)
	c.Sample(map[string]any{"query": describe(g, q), "hits": len(got)})
	if err != nil {
		c.Violation("c18/"+q.Kind+"/error", err.Error(), q)
		return nil
	}
	if class, what := compare(q, got); class != "" {
		c.Violation("c18/"+q.Kind+"/"+class, fmt.Sprintf("%s query %s on %s: %s", q.Kind, describe(g, q), q.Eng, what), q)
	}
	return nil
}
