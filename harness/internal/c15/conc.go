package c15

import (
	"fmt"
	"math/rand"
	"sync"
	"time"

	"verif/harness/internal/core"
)

// Engine C: the concurrent clause of C15.  One goroutine executes batches on a
// real store while reader goroutines keep opening readers and scanning them.
// The recorder's lock orders the events; TLC (spec/trace/TraceKVConc.tla)
// decides whether every scan shows the map of ONE instant of the reader's
// creation window, i.e. whole batches only and no later write.

type runC struct {
	Variant string `json:"variant"`
	Seed    int64  `json:"seed"`
	Batches int    `json:"batches"`
	Events  []any  `json:"events"`
	Scans   int    `json:"scans"`
	Overlap int    `json:"scans_of_readers_opened_during_a_batch"`
	Err     string `json:"err,omitempty"`
}

// concBatch builds batch i: sets and deletes on one group of keys, merges on
// another (never both on one key), so that half a batch is recognisable.
func concBatch(rng *rand.Rand, i int) []Op {
	setKeys := [][]int{{97}, {97, 0}, {97, 97}, {97, 255}, {0, 97}, {0, 0, 97}}
	mergeKeys := [][]int{{255}, {255, 0}, {255, 255, 97}}
	var ops []Op
	v := []int{i % 8}
	for _, k := range setKeys {
		switch rng.Intn(4) {
		case 0:
			ops = append(ops, Op{Op: "del", K: k, V: none})
		case 1: // untouched
		default:
			ops = append(ops, Op{Op: "set", K: k, V: v})
		}
	}
	ops = append(ops, Op{Op: "set", K: []int{0}, V: v}) // always: the batch's own stamp
	for _, k := range mergeKeys {
		if rng.Intn(3) > 0 {
			ops = append(ops, Op{Op: "merge", K: k, V: none, D: 1 + rng.Intn(2)})
		}
	}
	ops = append(ops, Op{Op: "merge", K: []int{255, 97}, V: none, D: 1}) // always: counts the batches
	rng.Shuffle(len(ops), func(a, b int) { ops[a], ops[b] = ops[b], ops[a] })
	return ops
}

func generateC(v variant, dir string, seed int64, batches int, batchEx bool) *runC {
	run := &runC{Variant: v.Name, Seed: seed, Batches: batches}
	r, err := newReal(v, dir, embDict, batchEx)
	if err != nil {
		run.Err = "harness-open-failed: " + err.Error()
		return run
	}
	defer r.close()
	var mu sync.Mutex
	busy := false
	emit := func(e map[string]any) {
		mu.Lock()
		run.Events = append(run.Events, e)
		mu.Unlock()
	}
	emit(map[string]any{"name": "Reset"})
	fail := func(s string) {
		mu.Lock()
		if run.Err == "" {
			run.Err = s
		}
		mu.Unlock()
	}
	stop := make(chan struct{})
	var wg sync.WaitGroup
	for g := 1; g <= 3; g++ {
		wg.Add(1)
		go func(id int) {
			defer wg.Done()
			rng := rand.New(rand.NewSource(seed*31 + int64(id)))
			for {
				select {
				case <-stop:
					return
				default:
				}
				mu.Lock()
				run.Events = append(run.Events, map[string]any{"name": "ROpenBegin", "r": id})
				during := busy
				mu.Unlock()
				rd, err := r.st.Reader()
				if err != nil {
					fail("Reader: " + err.Error())
					return
				}
				mu.Lock()
				run.Events = append(run.Events, map[string]any{"name": "ROpenEnd", "r": id})
				during = during || busy
				mu.Unlock()
				for k := 0; k < 1+rng.Intn(2); k++ {
					if k > 0 {
						time.Sleep(time.Duration(rng.Intn(300)) * time.Microsecond)
					}
					got, problem := r.scan(rd)
					if problem != "" {
						fail("scan: " + problem)
					}
					mu.Lock()
					run.Events = append(run.Events, map[string]any{"name": "RScan", "r": id, "ret": scanJSON(got)})
					run.Scans++
					if during {
						run.Overlap++
					}
					mu.Unlock()
				}
				_ = rd.Close()
				emit(map[string]any{"name": "RClose", "r": id})
				if rng.Intn(3) == 0 {
					time.Sleep(time.Duration(rng.Intn(200)) * time.Microsecond)
				}
			}
		}(g)
	}
	wrng := rand.New(rand.NewSource(seed))
	for i := 1; i <= batches; i++ {
		ops := concBatch(wrng, i)
		var evOps []any
		for _, o := range ops {
			evOps = append(evOps, map[string]any{"op": o.Op, "k": nn(o.K), "v": nn(o.V), "d": o.D})
		}
		mu.Lock()
		run.Events = append(run.Events, map[string]any{"name": "BatchBegin", "ops": evOps})
		busy = true
		mu.Unlock()
		err := r.execBatch(ops)
		mu.Lock()
		run.Events = append(run.Events, map[string]any{"name": "BatchEnd"})
		busy = false
		mu.Unlock()
		if err != nil {
			fail("batch: " + err.Error())
			break
		}
		if wrng.Intn(4) == 0 {
			time.Sleep(time.Duration(wrng.Intn(200)) * time.Microsecond)
		}
	}
	close(stop)
	wg.Wait()
	return run
}

// judgeC validates the concurrent runs against TraceKVConc.
func judgeC(c *core.Ctx, rn *runner, vars []variant, runs []*runC) error {
	var live []*runC
	for _, r := range runs {
		if r.Err != "" {
			c.Inconclusive(fmt.Sprintf("engine C: %s seed %d: %s", r.Variant, r.Seed, r.Err))
			continue
		}
		live = append(live, r)
	}
	for round := 0; round < 6 && len(live) > 0; round++ {
		var recs []any
		var owner []int
		for ri, r := range live {
			for range r.Events {
				owner = append(owner, ri)
			}
			recs = append(recs, r.Events...)
		}
		tf, err := c.ValidateTrace("TraceKVConc", "TraceKVConc.cfg", recs, core.Timeout(15*time.Minute), core.Heap(4000))
		if err != nil {
			return fmt.Errorf("TraceKVConc: %v", err)
		}
		if tf == nil {
			scans, over := 0, 0
			for _, r := range live {
				scans += r.Scans
				over += r.Overlap
				c.Distinct("C|" + r.Variant + fmt.Sprint(r.Seed))
			}
			c.Traces(len(live))
			c.Eval(scans)
			c.AddExtra("engine_c_scans", int64(scans))
			c.AddExtra("engine_c_scans_of_readers_opened_during_a_batch", int64(over))
			return nil
		}
		evIdx := tf.Line - 2
		if tf.Invariant == "" {
			evIdx = tf.Line - 1
		}
		if evIdx < 0 || evIdx >= len(recs) {
			return fmt.Errorf("TraceKVConc rejected without a usable record index: %+v", tf)
		}
		ri := owner[evIdx]
		r := live[ri]
		off := 0
		for k := 0; k < ri; k++ {
			off += len(live[k].Events)
		}
		local := evIdx - off
		if tf.Invariant == "" {
			c.Inconclusive(fmt.Sprintf("engine C: run %s seed %d: event %d (%v) is not an instance of the trace actions", r.Variant, r.Seed, local, r.Events[local]))
		} else {
			// confirm on the run alone (the schedule is the recorded one; a fresh run need not hit the window)
			tf2, err := c.ValidateTrace("TraceKVConc", "TraceKVConc.cfg", r.Events, core.Timeout(10*time.Minute), core.Heap(4000))
			if err != nil {
				return err
			}
			if tf2 != nil && tf2.Invariant == tf.Invariant {
				k0 := local - 12
				if k0 < 0 {
					k0 = 0
				}
				c.Violation(r.Variant+":concurrent-reader-view", fmt.Sprintf("KV store %s: a reader opened while a batch was executing shows a map that is neither the one before nor the one after the batch (TraceKVConc invariant %s)", r.Variant, tf.Invariant),
					map[string]any{"engine": "C", "variant": r.Variant, "seed": r.Seed, "invariant": tf.Invariant, "event": local, "failing_scan": r.Events[local], "events_before": r.Events[k0 : local+1]})
			} else {
				c.Inconclusive(fmt.Sprintf("engine C: %s seed %d: %s at event %d not confirmed on the run alone", r.Variant, r.Seed, tf.Invariant, local))
			}
		}
		live = append(append([]*runC{}, live[:ri]...), live[ri+1:]...)
	}
	return nil
}
