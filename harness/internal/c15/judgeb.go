package c15

import (
	"fmt"
	"sync"
	"sync/atomic"
	"time"

	"verif/harness/internal/core"
)

func generateAllB(c *core.Ctx, vars []variant, base string, perVariant, n int) []*runB {
	var mu sync.Mutex
	var out []*runB
	var wg sync.WaitGroup
	sem := make(chan struct{}, 6)
	for vi, v := range vars {
		for k := 0; k < perVariant; k++ {
			wg.Add(1)
			go func(vi, k int, v variant) {
				defer wg.Done()
				sem <- struct{}{}
				defer func() { <-sem }()
				emb := []embedding{embDict, embFF}[(vi+k)%2]
				seed := c.Seed*100003 + int64(k) // the same operation sequence is offered to every variant
				dir := ""
				if v.Disk {
					dir = mkdir(base, 1000000+vi*10000+k)
				}
				r := generateB(v, dir, emb, seed, n, k%2 == 0, 3*time.Minute)
				mu.Lock()
				out = append(out, r)
				mu.Unlock()
			}(vi, k, v)
		}
	}
	wg.Wait()
	return out
}

func variantByName(vars []variant, n string) *variant {
	for i := range vars {
		if vars[i].Name == n {
			return &vars[i]
		}
	}
	return nil
}

// classB turns the invariant TLC reported for event idx of a run into the
// failure class used in signatures (same classes as Engine A where possible).
func classB(run *runB, idx int, inv string) string {
	ev, _ := run.Events[idx].(map[string]any)
	switch inv {
	case "GetOK":
		return "get-mismatch"
	case "MultiGetOK":
		return "multiget-misaligned"
	case "ScanReaderOK":
		return "reader-isolation"
	case "ScanStoreOK":
		for j := idx; j >= 0; j-- {
			e, _ := run.Events[j].(map[string]any)
			if e["name"] == "ExecuteBatch" {
				var ops []Op
				for _, o := range e["ops"].([]any) {
					m := o.(map[string]any)
					ops = append(ops, Op{Op: m["op"].(string), K: m["k"].([]int)})
				}
				return batchClass(ops)
			}
		}
		return "store-contents"
	case "IterOpenOK", "SeekOK", "NextOK":
		action := map[string]string{"IterOpenOK": "open", "SeekOK": "seek", "NextOK": "next"}[inv]
		id := ev["i"]
		for j := idx; j >= 0; j-- {
			e, _ := run.Events[j].(map[string]any)
			if e["name"] == "IterOpen" && e["i"] == id {
				ret, _ := ev["ret"].(map[string]any)
				got := Ret{}
				if ret != nil {
					got.Valid, _ = ret["valid"].(bool)
					got.K, _ = ret["k"].([]int)
				}
				return iterClass(e["kind"].(string), action, e["lo"].([]int), e["hi"].([]int), got, embedding{})
			}
		}
		return "iter-" + action
	}
	return "model-internal:" + inv
}

// judgeB lets TLC judge the recorded runs against TraceKV.tla. A failing run
// is regenerated from its seed on a fresh store and judged alone; only a
// reproduced failure is a violation.
func judgeB(c *core.Ctx, rn *runner, vars []variant, runs []*runB) error {
	var live []*runB
	calls := 0
	for _, r := range runs {
		for _, m := range r.Extra {
			c.Violation(r.Variant+":"+m.Class, fmt.Sprintf("KV store %s: %s", r.Variant, describe(m)),
				map[string]any{"engine": "B", "variant": r.Variant, "run": metaOnly(r)})
		}
		if r.Hang || r.Panic != "" {
			class := r.FailClass
			if r.Hang {
				class = "hang"
			}
			if class == "harness-open-failed" {
				c.Inconclusive(fmt.Sprintf("engine B: %s: %s", r.Variant, r.Panic))
				continue
			}
			v := variantByName(vars, r.Variant)
			r2 := generateB(*v, dirFor(rn, v), embByName(r.Emb), r.Seed, r.N, r.BatchEx, 3*time.Minute)
			if (r2.Hang && r.Hang) || (r2.Panic != "" && r2.FailClass == r.FailClass) {
				c.Violation(r.Variant+":"+class, fmt.Sprintf("KV store %s failed during a recorded random run (seed %d): %s (after %d recorded calls)", r.Variant, r.Seed, r.Panic, len(r.Events)),
					map[string]any{"engine": "B", "variant": r.Variant, "run": metaOnly(r)})
			} else {
				c.Inconclusive(fmt.Sprintf("engine B: failure on %s did not reproduce: %s", r.Variant, r.Panic))
			}
			continue
		}
		live = append(live, r)
		calls += r.Calls
	}
	c.Eval(calls)
	for round := 0; round < 8 && len(live) > 0; round++ {
		var recs []any
		var owner []int
		for ri, r := range live {
			for range r.Events {
				owner = append(owner, ri)
			}
			recs = append(recs, r.Events...)
		}
		tf, err := c.ValidateTrace("TraceKV", "TraceKV.cfg", recs, core.Timeout(15*time.Minute), core.Heap(4000))
		if err != nil {
			return fmt.Errorf("TraceKV: %v", err)
		}
		if tf == nil {
			c.Traces(len(live))
			for _, r := range live {
				c.Distinct("B|" + r.Variant + "|" + r.Emb + fmt.Sprint(r.Seed, r.N))
			}
			if len(live) > 0 {
				r := live[0]
				k := len(r.Events)
				if k > 12 {
					k = 12
				}
				c.Sample(map[string]any{"engine": "B", "variant": r.Variant, "seed": r.Seed, "calls": len(r.Events), "first_events": r.Events[:k], "result": "accepted by TraceKV"})
			}
			// the nil-vs-empty lead config (never a violation)
			if !c.Thorough() {
				return nil
			}
			if tf2, err := c.ValidateTrace("TraceKV", "TraceKV_lead.cfg", recs, core.Timeout(15*time.Minute), core.Heap(4000)); err == nil && tf2 != nil && tf2.Invariant == "EmptyNotNil" {
				c.Extra("lead_empty_value_returned_as_nil", fmt.Sprintf("event %d of the concatenated engine-B trace", tf2.Line-1))
			}
			return nil
		}
		// which event failed: invariants are evaluated on the state AFTER the event l-1;
		// an unaccepted trace stops AT event l
		evIdx := tf.Line - 2
		if tf.Invariant == "" {
			evIdx = tf.Line - 1
		}
		if evIdx < 0 || evIdx >= len(recs) {
			return fmt.Errorf("TraceKV rejected without a usable record index: %+v", tf)
		}
		ri := owner[evIdx]
		r := live[ri]
		off := 0
		for k := 0; k < ri; k++ {
			off += len(live[k].Events)
		}
		local := evIdx - off
		if tf.Invariant == "" {
			c.Inconclusive(fmt.Sprintf("engine B: run %s seed %d: event %d (%v) is not an instance of the design actions", r.Variant, r.Seed, local, r.Events[local]))
		} else {
			class := classB(r, local, tf.Invariant)
			if len(class) > 15 && class[:15] == "model-internal:" {
				c.Inconclusive(fmt.Sprintf("engine B: model invariant %s failed on a trace (spec defect)", tf.Invariant))
			} else {
				// reproduce: same seed, fresh store, judged alone
				v := variantByName(vars, r.Variant)
				r2 := generateB(*v, dirFor(rn, v), embByName(r.Emb), r.Seed, r.N, r.BatchEx, 3*time.Minute)
				repro := false
				if r2.Panic == "" && !r2.Hang {
					tf2, err := c.ValidateTrace("TraceKV", "TraceKV.cfg", r2.Events, core.Timeout(10*time.Minute), core.Heap(4000))
					if err != nil {
						return err
					}
					repro = tf2 != nil && tf2.Invariant == tf.Invariant
				}
				if repro {
					k0 := local - 25
					if k0 < 0 {
						k0 = 0
					}
					c.Violation(r.Variant+":"+class, fmt.Sprintf("KV store %s: a recorded random run is rejected by TraceKV invariant %s (%s)", r.Variant, tf.Invariant, class),
						map[string]any{"engine": "B", "variant": r.Variant, "invariant": tf.Invariant, "event": local, "failing_call": r.Events[local], "events_before": r.Events[k0 : local+1], "run": metaOnly(r)})
				} else {
					c.Inconclusive(fmt.Sprintf("engine B: %s seed %d: %s at call %d did not reproduce", r.Variant, r.Seed, tf.Invariant, local))
				}
			}
		}
		live = append(append([]*runB{}, live[:ri]...), live[ri+1:]...)
	}
	return nil
}

func metaOnly(r *runB) *runB {
	cp := *r
	cp.Events = nil
	return &cp
}

func dirFor(rn *runner, v *variant) string {
	if !v.Disk {
		return ""
	}
	n := atomic.AddInt64(&rn.seq, 1)
	return mkdir(rn.base, int(2000000+n))
}

