package c15

import (
	"fmt"
	"sort"

	"verif/harness/internal/tlaval"
)

// Neutral, JSON-serialisable form of one KVStore.tla state: the action that
// led to it (with the return value the spec computed) and the observable
// state after it. Replay artefacts are lists of Steps.

type KVPair struct {
	K []int `json:"k"`
	V []int `json:"v"`
}

type Op struct {
	Op string `json:"op"`
	K  []int  `json:"k"`
	V  []int  `json:"v"`
	D  int    `json:"d"`
}

type Ret struct {
	Valid bool  `json:"valid"`
	K     []int `json:"k"`
	V     []int `json:"v"`
}

type ReaderSt struct {
	Open bool     `json:"open"`
	Scan []KVPair `json:"scan"`
}

type IterSt struct {
	Open  bool   `json:"open"`
	Rd    int    `json:"rd"`
	Kind  string `json:"kind"`
	Lo    []int  `json:"lo"`
	Hi    []int  `json:"hi"`
	Cur   []int  `json:"cur"`
	Valid bool   `json:"valid"`
}

type Step struct {
	Name string  `json:"name"`
	R    int     `json:"r,omitempty"`
	I    int     `json:"i,omitempty"`
	Kind string  `json:"kind,omitempty"`
	K    []int   `json:"k,omitempty"`
	Lo   []int   `json:"lo,omitempty"`
	Hi   []int   `json:"hi,omitempty"`
	Ks   [][]int `json:"ks,omitempty"`
	Ops  []Op    `json:"ops,omitempty"`

	RetVal  []int    `json:"ret_val,omitempty"`
	RetVals [][]int  `json:"ret_vals,omitempty"`
	RetScan []KVPair `json:"ret_scan,omitempty"`
	RetIter *Ret     `json:"ret_iter,omitempty"`

	// observable state after the step
	Keys    [][]int          `json:"keys"` // domain of kv
	KVS     []KVPair         `json:"kvs"`
	Readers map[int]ReaderSt `json:"readers"`
	Iters   map[int]IterSt   `json:"iters"`
}

func ints(v any) []int {
	l := tlaval.List(v)
	out := make([]int, len(l))
	for i, x := range l {
		out[i] = tlaval.Int(x)
	}
	return out
}

func pairs(v any) []KVPair {
	l := tlaval.List(v)
	out := make([]KVPair, 0, len(l))
	for _, e := range l {
		kv := tlaval.List(e)
		out = append(out, KVPair{K: ints(kv[0]), V: ints(kv[1])})
	}
	return out
}

// intKeyed iterates over a TLA+ function with integer domain (printed either
// as a tuple or as (k :> v @@ ...)).
func intKeyed(v any, fn func(k int, e any)) {
	switch x := v.(type) {
	case tlaval.Seq:
		for i, e := range x {
			fn(i+1, e)
		}
	case tlaval.Fcn:
		for _, p := range x {
			fn(tlaval.Int(p.K), p.V)
		}
	case tlaval.Set: // empty function printed oddly
		if len(x) != 0 {
			panic("c15: set where function expected")
		}
	default:
		panic(fmt.Sprintf("c15: unexpected %T for int-keyed function", v))
	}
}

func optField(v any, name string) (any, bool) {
	m := tlaval.Map(v)
	f, ok := m[name]
	return f, ok
}

func stepOf(st tlaval.State) (s Step, err error) {
	defer func() {
		if r := recover(); r != nil {
			err = fmt.Errorf("c15: cannot interpret state: %v", r)
		}
	}()
	act := st["act"]
	s.Name = tlaval.Str(tlaval.Field(act, "name"))
	if f, ok := optField(act, "r"); ok {
		s.R = tlaval.Int(f)
	}
	if f, ok := optField(act, "i"); ok {
		s.I = tlaval.Int(f)
	}
	if f, ok := optField(act, "kind"); ok {
		s.Kind = tlaval.Str(f)
	}
	if f, ok := optField(act, "k"); ok {
		s.K = ints(f)
	}
	if f, ok := optField(act, "lo"); ok {
		s.Lo = ints(f)
	}
	if f, ok := optField(act, "hi"); ok {
		s.Hi = ints(f)
	}
	if f, ok := optField(act, "ks"); ok {
		for _, k := range tlaval.List(f) {
			s.Ks = append(s.Ks, ints(k))
		}
	}
	if f, ok := optField(act, "ops"); ok {
		for _, o := range tlaval.List(f) {
			s.Ops = append(s.Ops, Op{Op: tlaval.Str(tlaval.Field(o, "op")), K: ints(tlaval.Field(o, "k")),
				V: ints(tlaval.Field(o, "v")), D: tlaval.Int(tlaval.Field(o, "d"))})
		}
	}
	if f, ok := optField(act, "ret"); ok {
		switch s.Name {
		case "Get":
			s.RetVal = ints(f)
		case "MultiGet":
			for _, v := range tlaval.List(f) {
				s.RetVals = append(s.RetVals, ints(v))
			}
		case "ScanReader", "ScanStore":
			s.RetScan = pairs(f)
			if s.RetScan == nil {
				s.RetScan = []KVPair{}
			}
		case "IterOpen", "Seek", "Next":
			s.RetIter = &Ret{Valid: tlaval.Bool(tlaval.Field(f, "valid")), K: ints(tlaval.Field(f, "k")), V: ints(tlaval.Field(f, "v"))}
		}
	}
	// observable state
	switch kv := st["kv"].(type) {
	case tlaval.Fcn:
		for _, p := range kv {
			s.Keys = append(s.Keys, ints(p.K))
		}
	case tlaval.Seq:
		// a function whose domain is 1..n would be printed as a tuple: keys are never ints here
		if len(kv) != 0 {
			return s, fmt.Errorf("c15: kv printed as a tuple")
		}
	default:
		return s, fmt.Errorf("c15: kv is %T", st["kv"])
	}
	sort.Slice(s.Keys, func(i, j int) bool { return fmt.Sprint(s.Keys[i]) < fmt.Sprint(s.Keys[j]) })
	s.KVS = pairs(st["kvs"])
	s.Readers = map[int]ReaderSt{}
	intKeyed(st["readers"], func(k int, e any) {
		s.Readers[k] = ReaderSt{Open: tlaval.Bool(tlaval.Field(e, "open")), Scan: pairs(tlaval.Field(e, "scan"))}
	})
	s.Iters = map[int]IterSt{}
	intKeyed(st["iters"], func(k int, e any) {
		s.Iters[k] = IterSt{Open: tlaval.Bool(tlaval.Field(e, "open")), Rd: tlaval.Int(tlaval.Field(e, "rd")),
			Kind: tlaval.Str(tlaval.Field(e, "kind")), Lo: ints(tlaval.Field(e, "lo")), Hi: ints(tlaval.Field(e, "hi")),
			Cur: ints(tlaval.Field(e, "cur")), Valid: tlaval.Bool(tlaval.Field(e, "valid"))}
	})
	return s, nil
}

func eqInts(a, b []int) bool {
	if len(a) != len(b) {
		return false
	}
	for i := range a {
		if a[i] != b[i] {
			return false
		}
	}
	return true
}

func lookup(scan []KVPair, k []int) []int {
	for _, p := range scan {
		if eqInts(p.K, k) {
			return p.V
		}
	}
	return none
}
