package c15

import (
	"fmt"
	"math/rand"
	"os"
	"time"

	store "github.com/blevesearch/upsidedown_store_api"
)

// Engine B: seeded random operation sequences are executed on a real store;
// calls and the values the store returned are recorded as events and judged
// by TLC (spec/trace/TraceKV.tla re-executes the events on the KVStore design
// actions). The generator keeps no model of the contents: it only tracks
// which readers / iterators are open (needed to issue legal calls).

type runB struct {
	Variant string `json:"variant"`
	Emb     string `json:"embedding"`
	Seed    int64  `json:"seed"`
	N       int    `json:"n"`
	BatchEx bool   `json:"batch_ex"`
	Events  []any  `json:"events"`
	Panic   string `json:"panic,omitempty"`
	FailClass string `json:"fail_class,omitempty"`
	Hang    bool   `json:"hang,omitempty"`
	Extra   []*mismatch `json:"-"`
	Calls   int    `json:"-"`
}

var alphabetB = []int{0, 97, 255}

type genFail struct{ Class, Detail string }

func randKeyB(rng *rand.Rand, maxLen int) []int {
	n := rng.Intn(maxLen + 1)
	k := make([]int, n)
	for i := range k {
		k[i] = alphabetB[rng.Intn(len(alphabetB))]
	}
	return k
}

func retJSON(r Ret) map[string]any {
	if !r.Valid {
		return map[string]any{"valid": false, "k": []int{}, "v": []int{}}
	}
	return map[string]any{"valid": true, "k": nn(r.K), "v": nn(r.V)}
}

func nn(x []int) []int {
	if x == nil {
		return []int{}
	}
	return x
}

func scanJSON(s []KVPair) []any {
	out := make([]any, 0, len(s))
	for _, p := range s {
		out = append(out, []any{nn(p.K), nn(p.V)})
	}
	return out
}

// generateB drives one real store with n random calls and records them.
func generateB(v variant, dir string, emb embedding, seed int64, n int, batchEx bool, timeout time.Duration) *runB {
	run := &runB{Variant: v.Name, Emb: emb.Name, Seed: seed, N: n, BatchEx: batchEx}
	done := make(chan struct{})
	go func() {
		defer close(done)
		defer func() {
			if p := recover(); p != nil {
				if gf, ok := p.(genFail); ok {
					run.Panic = gf.Class + ": " + gf.Detail
					run.FailClass = gf.Class
				} else {
					run.Panic = fmt.Sprint(p)
					run.FailClass = "panic"
				}
			}
		}()
		generateInto(run, v, dir, emb, seed, n, batchEx)
	}()
	select {
	case <-done:
	case <-time.After(timeout):
		// the goroutine may still append; hand out a copy
		cp := *run
		cp.Hang = true
		cp.Events = append([]any{}, run.Events...)
		return &cp
	}
	if dir != "" {
		_ = os.RemoveAll(dir)
	}
	return run
}

func generateInto(run *runB, v variant, dir string, emb embedding, seed int64, n int, batchEx bool) {
	rng := rand.New(rand.NewSource(seed))
	r, err := newReal(v, dir, emb, batchEx)
	if err != nil {
		panic(genFail{"harness-open-failed", err.Error()})
	}
	defer r.close()
	emit := func(e map[string]any) { run.Events = append(run.Events, e); run.Calls++ }
	emit(map[string]any{"name": "Reset", "variant": v.Name, "seed": seed})

	// hot keys: a few stems with extensions, so that prefixes are shared, keys get overwritten and deleted
	var hot [][]int
	for len(hot) < 7 {
		stem := randKeyB(rng, 2)
		hot = append(hot, stem)
		for j := 0; j < 2 && len(stem) < 3; j++ {
			hot = append(hot, append(append([]int{}, stem...), alphabetB[rng.Intn(3)]))
		}
	}
	pickKey := func() []int {
		if rng.Intn(10) < 8 {
			return hot[rng.Intn(len(hot))]
		}
		return randKeyB(rng, 3)
	}
	pickBound := func() []int { // a key, a prefix of a key, or a key extended
		k := pickKey()
		switch rng.Intn(4) {
		case 0:
			return k[:rng.Intn(len(k)+1)]
		case 1:
			if len(k) < 3 {
				return append(append([]int{}, k...), alphabetB[rng.Intn(3)])
			}
		}
		return k
	}
	positives := 0
	type itInfo struct {
		rd int
	}
	itOf := map[int]itInfo{}
	const maxR, maxI = 3, 3

	for step := 0; step < n; step++ {
		x := rng.Intn(100)
		switch {
		case x < 28: // batch
			nops := 1 + rng.Intn(6)
			used := map[string]string{}
			var ops []Op
			var evOps []any
			for len(ops) < nops {
				k := pickKey()
				ks := fmt.Sprint(k)
				y := rng.Intn(100)
				var o Op
				switch {
				case y < 40:
					val := []int{rng.Intn(8)}
					if rng.Intn(10) < 3 {
						val = []int{}
					}
					o = Op{Op: "set", K: k, V: val}
				case y < 72:
					o = Op{Op: "del", K: k, V: none}
				default:
					d := []int{-3, -1, 1, 2}[rng.Intn(4)]
					if d > 0 {
						if positives >= 50 { // keeps every count a one-byte uvarint (< 128)
							d = -1
						} else {
							positives++
						}
					}
					o = Op{Op: "merge", K: k, V: none, D: d}
				}
				kind := "w"
				if o.Op == "merge" {
					kind = "m"
				}
				if prev, ok := used[ks]; ok && (prev != kind || kind == "w") {
					// a key is merged or set/deleted in one batch, never both; set/delete at most once
					nops--
					continue
				}
				used[ks] = kind
				ops = append(ops, o)
				evOps = append(evOps, map[string]any{"op": o.Op, "k": nn(o.K), "v": nn(o.V), "d": o.D})
			}
			if len(ops) == 0 {
				continue
			}
			if err := r.execBatch(ops); err != nil {
				panic(genFail{"batch-error", err.Error()})
			}
			emit(map[string]any{"name": "ExecuteBatch", "ops": evOps})
		case x < 38: // reader open
			id := 0
			for c := 1; c <= maxR; c++ {
				if _, ok := r.readers[c]; !ok {
					id = c
					break
				}
			}
			if id == 0 {
				continue
			}
			rd, err := r.st.Reader()
			if err != nil {
				panic(genFail{"reader-error", err.Error()})
			}
			r.readers[id] = rd
			emit(map[string]any{"name": "ReaderOpen", "r": id})
		case x < 45: // reader close (its iterators first)
			id := anyKey(rng, r.readers)
			if id == 0 {
				continue
			}
			for i := 1; i <= maxI; i++ {
				if inf, ok := itOf[i]; ok && inf.rd == id {
					_ = r.iters[i].Close()
					delete(r.iters, i)
					delete(itOf, i)
					emit(map[string]any{"name": "IterClose", "i": i})
				}
			}
			_ = r.readers[id].Close()
			delete(r.readers, id)
			emit(map[string]any{"name": "ReaderClose", "r": id})
		case x < 55: // iterator open
			rid := anyKey(rng, r.readers)
			id := 0
			for c := 1; c <= maxI; c++ {
				if _, ok := r.iters[c]; !ok {
					id = c
					break
				}
			}
			if rid == 0 || id == 0 {
				continue
			}
			var it store.KVIterator
			ev := map[string]any{"name": "IterOpen", "i": id, "r": rid}
			if rng.Intn(2) == 0 {
				p := pickBound()
				if len(p) == 3 && rng.Intn(2) == 0 {
					p = p[:2]
				}
				it = r.readers[rid].PrefixIterator(emb.bound(p))
				ev["kind"], ev["lo"], ev["hi"] = "prefix", nn(p), none
			} else {
				lo := pickBound()
				hi := none
				var end []byte
				if rng.Intn(4) > 0 {
					hi = pickBound()
					if len(hi) == 0 {
						hi = []int{255}
					}
					end = emb.key(hi)
				}
				it = r.readers[rid].RangeIterator(emb.bound(lo), end)
				ev["kind"], ev["lo"], ev["hi"] = "range", nn(lo), hi
			}
			if it == nil {
				panic(genFail{"iter-open-nil", ""})
			}
			r.iters[id] = it
			itOf[id] = itInfo{rd: rid}
			got, problem := r.current(it)
			if problem != "" && got.K == nil {
				panic(genFail{"iter-accessors-inconsistent", problem})
			}
			ev["ret"] = retJSON(got)
			emit(ev)
		case x < 72: // seek (forwards, backwards, before the first, after the last, on an exhausted iterator)
			id := anyKey(rng, r.iters)
			if id == 0 {
				continue
			}
			k := pickBound()
			switch rng.Intn(8) {
			case 0:
				k = []int{}
			case 1:
				k = []int{255, 255, 255}
			}
			r.iters[id].Seek(emb.key(k))
			got, problem := r.current(r.iters[id])
			if problem != "" && got.K == nil {
				panic(genFail{"iter-accessors-inconsistent", problem})
			}
			emit(map[string]any{"name": "Seek", "i": id, "k": nn(k), "ret": retJSON(got)})
		case x < 85: // next
			id := anyKey(rng, r.iters)
			if id == 0 || !r.iters[id].Valid() {
				continue
			}
			r.iters[id].Next()
			got, problem := r.current(r.iters[id])
			if problem != "" && got.K == nil {
				panic(genFail{"iter-accessors-inconsistent", problem})
			}
			emit(map[string]any{"name": "Next", "i": id, "ret": retJSON(got)})
		case x < 88: // iterator close
			id := anyKey(rng, r.iters)
			if id == 0 {
				continue
			}
			_ = r.iters[id].Close()
			delete(r.iters, id)
			delete(itOf, id)
			emit(map[string]any{"name": "IterClose", "i": id})
		case x < 92: // get
			rid := anyKey(rng, r.readers)
			if rid == 0 {
				continue
			}
			k := pickKey()
			val, err := r.readers[rid].Get(emb.key(k))
			if err != nil {
				panic(genFail{"get-error", err.Error()})
			}
			ret := none
			if val != nil {
				ret = intsOf(val)
			}
			emit(map[string]any{"name": "Get", "r": rid, "k": nn(k), "ret": ret})
		case x < 94: // multi-get
			rid := anyKey(rng, r.readers)
			if rid == 0 {
				continue
			}
			ks := [][]int{pickKey(), pickKey(), pickKey()}[:1+rng.Intn(3)]
			var rets []any
			m := func() (mm *mismatch) {
				defer func() {
					if p := recover(); p != nil {
						if gf, ok := p.(genFail); ok {
							panic(gf)
						}
						mm = &mismatch{Class: "multiget-panic", Action: "MultiGet", Detail: fmt.Sprintf("MultiGet(%v) panicked: %v", ks, p)}
					}
				}()
				keys := make([][]byte, len(ks))
				for i := range ks {
					keys[i] = emb.key(ks[i])
				}
				vals, err := r.readers[rid].MultiGet(keys)
				if err != nil {
					panic(genFail{"multiget-error", err.Error()})
				}
				for _, val := range vals {
					if val == nil {
						rets = append(rets, none)
					} else {
						rets = append(rets, intsOf(val))
					}
				}
				return nil
			}()
			if m != nil {
				run.Extra = append(run.Extra, m)
				continue
			}
			var evKs []any
			for _, k := range ks {
				evKs = append(evKs, nn(k))
			}
			emit(map[string]any{"name": "MultiGet", "r": rid, "ks": evKs, "ret": rets})
		case x < 97: // full scan of an open reader
			rid := anyKey(rng, r.readers)
			if rid == 0 {
				continue
			}
			got, problem := r.scan(r.readers[rid])
			if problem != "" && !scanProblemRecordable(problem) {
				panic(genFail{"scan-broken", problem})
			}
			emit(map[string]any{"name": "ScanReader", "r": rid, "ret": scanJSON(got)})
		default: // full scan of a reader opened now
			rd, err := r.st.Reader()
			if err != nil {
				panic(genFail{"reader-error", err.Error()})
			}
			got, problem := r.scan(rd)
			_ = rd.Close()
			if problem != "" && !scanProblemRecordable(problem) {
				panic(genFail{"scan-broken", problem})
			}
			emit(map[string]any{"name": "ScanStore", "ret": scanJSON(got)})
		}
	}
	// final full observation: every open reader, then the store
	for rid := 1; rid <= maxR; rid++ {
		if rd, ok := r.readers[rid]; ok {
			got, _ := r.scan(rd)
			emit(map[string]any{"name": "ScanReader", "r": rid, "ret": scanJSON(got)})
		}
	}
	rd, err := r.st.Reader()
	if err == nil {
		got, _ := r.scan(rd)
		_ = rd.Close()
		emit(map[string]any{"name": "ScanStore", "ret": scanJSON(got)})
	}
}

// anyKey picks an id of a non-empty map deterministically (ids are 1..3).
func anyKey[T any](rng *rand.Rand, m map[int]T) int {
	var ids []int
	for c := 1; c <= 3; c++ {
		if _, ok := m[c]; ok {
			ids = append(ids, c)
		}
	}
	if len(ids) == 0 {
		return 0
	}
	return ids[rng.Intn(len(ids))]
}

// a scan that returned a key outside the scanned prefix is recorded as it is (TLC rejects it)
func scanProblemRecordable(p string) bool { return len(p) >= 12 && p[:12] == "scan returne" }
