package c15

import (
	"fmt"
	"math/rand"
	"os"
	"time"

	store "github.com/blevesearch/upsidedown_store_api"
)

// Engine B: seeded random operation sequences are executed on a real store;
// calls and the values the store returned are recorded as events and judged
// by TLC (spec/trace/TraceKV.tla re-executes the events on the KVStore design
// actions). The generator keeps no model of the contents: it only tracks
// which readers / iterators are open (needed to issue legal calls).

type runB struct {
	Variant string `json:"variant"`
	Emb     string `json:"embedding"`
	Seed    int64  `json:"seed"`
	N       int    `json:"n"`
	BatchEx bool   `json:"batch_ex"`
	Events  []any  `json:"events"`
	Panic   string `json:"panic,omitempty"`
	FailClass string `json:"fail_class,omitempty"`
	Hang    bool   `json:"hang,omitempty"`
	Extra   []*mismatch `json:"-"`
	Calls   int    `json:"-"`
}

var alphabetB = []int{0, 97, 255}

type genFail struct{ Class, Detail string }

func randKeyB(rng *rand.Rand, maxLen int) []int {
	n := rng.Intn(maxLen + 1)
	k := make([]int, n)
	for i := range k {
		k[i] = alphabetB[rng.Intn(len(alphabetB))]
	}
	return k
}

func retJSON(r Ret) map[string]any {
	if !r.Valid {
		return map[string]any{"valid": false, "k": []int{}, "v": []int{}}
	}
	return map[string]any{"valid": true, "k": nn(r.K), "v": nn(r.V)}
}

func nn(x []int) []int {
	if x == nil {
		return []int{}
	}
	return x
}

func scanJSON(s []KVPair) []any {
	out := make([]any, 0, len(s))
	for _, p := range s {
		out = append(out, []any{nn(p.K), nn(p.V)})
	}
	return out
}

// generateB drives one real store with n random calls and records them.
func generateB(v variant, dir string, emb embedding, seed int64, n int, batchEx bool, timeout time.Duration) *runB {
	run := &runB{Variant: v.Name, Emb: emb.Name, Seed: seed, N: n, BatchEx: batchEx}
	done := make(chan struct{})
	go func() {
		defer close(done)
		defer func() {
			if p := recover(); p != nil {
				if gf, ok := p.(genFail); ok {
					run.Panic = gf.Class + ": " + gf.Detail
					run.FailClass = gf.Class
				} else {
					run.Panic = fmt.Sprint(p)
					run.FailClass = "panic"
				}
			}
		}()
		generateInto(run, v, dir, emb, seed, n, batchEx)
	}()
	select {
	case <-done:
	case <-time.After(timeout):
		// the goroutine may still append; hand out a copy
		cp := *run
		cp.Hang = true
		cp.Events = append([]any{}, run.Events...)
		return &cp
	}
	if dir != "" {
		_ = os.RemoveAll(dir)
	}
	return run
}

func generateInto(run *runB, v variant, dir string, emb embedding, seed int64, n int, batchEx bool) {
	rng := rand.New(rand.NewSource(seed))
	r, err := newReal(v, dir, emb, batchEx)
	if err != nil {
		panic(genFail{"harness-open-failed", err.Error()})
	}
	defer r.close()
	emit := func(e map[string]any) { run.Events = append(run.Events, e); run.Calls++ }
	emit(map[string]any{"name": "Reset", "variant": v.Name, "seed": seed})

	// hot keys: a few stems with extensions, so that prefixes are shared, keys get overwritten and deleted
	var hot [][]int
	for len(hot) < 7 {
		stem := randKeyB(rng, 2)
		hot = append(hot, stem)
		for j := 0; j < 2 && len(stem) < 3; j++ {
			hot = append(hot, append(append([]int{}, stem...), alphabetB[rng.Intn(3)]))
		}
	}
	// generator memory (inputs only, never an oracle): keys recently written / deleted, last
	// key each iterator returned - used to aim seeks and bounds at interesting places
	var recentSet, recentDel [][]int
	remember := func(l *[][]int, k []int) {
		*l = append(*l, k)
		if len(*l) > 6 {
			*l = (*l)[1:]
		}
	}
	lastPos := map[int][]int{}
	pickKey := func() []int {
		x := rng.Intn(10)
		switch {
		case x < 6:
			return hot[rng.Intn(len(hot))]
		case x < 8 && len(recentSet) > 0:
			return recentSet[rng.Intn(len(recentSet))]
		case x < 9 && len(recentDel) > 0:
			return recentDel[rng.Intn(len(recentDel))]
		}
		return randKeyB(rng, 3)
	}
	pickBound := func() []int { // a key, a prefix of a key, or a key extended
		k := pickKey()
		switch rng.Intn(4) {
		case 0:
			return k[:rng.Intn(len(k)+1)]
		case 1:
			if len(k) < 3 {
				return append(append([]int{}, k...), alphabetB[rng.Intn(3)])
			}
		}
		return k
	}
	positives := 0
	itRd := map[int]int{}
	const maxR, maxI = 3, 3

	freeReader := func() int {
		for c := 1; c <= maxR; c++ {
			if _, ok := r.readers[c]; !ok {
				return c
			}
		}
		return 0
	}
	freeIter := func() int {
		for c := 1; c <= maxI; c++ {
			if _, ok := r.iters[c]; !ok {
				return c
			}
		}
		return 0
	}
	observe := func(id int) map[string]any {
		got, problem := r.current(r.iters[id])
		if problem != "" && got.K == nil {
			panic(genFail{"iter-accessors-inconsistent", problem})
		}
		if got.Valid {
			lastPos[id] = got.K
		}
		return retJSON(got)
	}
	doBatch := func(ops []Op) {
		var evOps []any
		for _, o := range ops {
			evOps = append(evOps, map[string]any{"op": o.Op, "k": nn(o.K), "v": nn(o.V), "d": o.D})
			switch o.Op {
			case "set":
				remember(&recentSet, o.K)
			case "del":
				remember(&recentDel, o.K)
			}
		}
		if err := r.execBatch(ops); err != nil {
			panic(genFail{"batch-error", err.Error()})
		}
		emit(map[string]any{"name": "ExecuteBatch", "ops": evOps})
	}
	doReaderOpen := func() int {
		id := freeReader()
		if id == 0 {
			return 0
		}
		rd, err := r.st.Reader()
		if err != nil {
			panic(genFail{"reader-error", err.Error()})
		}
		r.readers[id] = rd
		emit(map[string]any{"name": "ReaderOpen", "r": id})
		return id
	}
	doIterClose := func(id int) {
		_ = r.iters[id].Close()
		delete(r.iters, id)
		delete(itRd, id)
		delete(lastPos, id)
		emit(map[string]any{"name": "IterClose", "i": id})
	}
	doReaderClose := func(id int) {
		for i := 1; i <= maxI; i++ {
			if rd, ok := itRd[i]; ok && rd == id {
				doIterClose(i)
			}
		}
		_ = r.readers[id].Close()
		delete(r.readers, id)
		emit(map[string]any{"name": "ReaderClose", "r": id})
	}
	doIterOpen := func(rid int, kind string, lo, hi []int) int {
		id := freeIter()
		if id == 0 || rid == 0 {
			return 0
		}
		var it store.KVIterator
		if kind == "prefix" {
			it = r.readers[rid].PrefixIterator(emb.bound(lo))
			hi = none
		} else {
			var end []byte
			if !isNone(hi) {
				end = emb.key(hi)
			}
			it = r.readers[rid].RangeIterator(emb.bound(lo), end)
		}
		if it == nil {
			panic(genFail{"iter-open-nil", ""})
		}
		r.iters[id] = it
		itRd[id] = rid
		emit(map[string]any{"name": "IterOpen", "i": id, "r": rid, "kind": kind, "lo": nn(lo), "hi": hi, "ret": observe(id)})
		return id
	}
	doSeek := func(id int, k []int) {
		r.iters[id].Seek(emb.key(k))
		emit(map[string]any{"name": "Seek", "i": id, "k": nn(k), "ret": observe(id)})
	}
	doNext := func(id int) {
		if !r.iters[id].Valid() {
			return
		}
		r.iters[id].Next()
		emit(map[string]any{"name": "Next", "i": id, "ret": observe(id)})
	}
	randomBatch := func() []Op {
		nops := 1 + rng.Intn(6)
		used := map[string]string{}
		var ops []Op
		for tries := 0; len(ops) < nops && tries < 30; tries++ {
			k := pickKey()
			ks := fmt.Sprint(k)
			y := rng.Intn(100)
			var o Op
			switch {
			case y < 42:
				val := []int{rng.Intn(8)}
				if rng.Intn(10) < 3 {
					val = []int{}
				}
				o = Op{Op: "set", K: k, V: val}
			case y < 72:
				if len(recentSet) > 0 && rng.Intn(3) > 0 {
					k = recentSet[rng.Intn(len(recentSet))]
					ks = fmt.Sprint(k)
				}
				o = Op{Op: "del", K: k, V: none}
			default:
				d := []int{-3, -1, 1, 2}[rng.Intn(4)]
				if d > 0 {
					if positives >= 50 { // keeps every count a one-byte uvarint (< 128)
						d = -1
					} else {
						positives++
					}
				}
				o = Op{Op: "merge", K: k, V: none, D: d}
			}
			kind := "w"
			if o.Op == "merge" {
				kind = "m"
			}
			if prev, ok := used[ks]; ok && (prev != kind || kind == "w") {
				// a key is merged or set/deleted in one batch, never both; set/delete at most once
				continue
			}
			used[ks] = kind
			ops = append(ops, o)
		}
		return ops
	}
	// after a batch with deletions: look at the deleted keys through a new reader with an
	// iterator that starts before them, moves past them and seeks back (and to the key itself)
	probeDeleted := func(ops []Op) {
		var dels [][]int
		for _, o := range ops {
			if o.Op == "del" {
				dels = append(dels, o.K)
			}
		}
		if len(dels) == 0 {
			return
		}
		rid := freeReader()
		if rid == 0 {
			rid = 1 + rng.Intn(maxR)
			doReaderClose(rid)
		}
		rid = doReaderOpen()
		if freeIter() == 0 {
			doIterClose(1 + rng.Intn(maxI))
		}
		d := dels[rng.Intn(len(dels))]
		lo := d[:rng.Intn(len(d)+1)]
		var id int
		if rng.Intn(2) == 0 {
			id = doIterOpen(rid, "prefix", lo, none)
		} else {
			hi := none
			if rng.Intn(2) == 0 {
				hi = pickBound()
				if len(hi) == 0 {
					hi = []int{255}
				}
			}
			id = doIterOpen(rid, "range", lo, hi)
		}
		for k := rng.Intn(3); k > 0; k-- {
			doNext(id)
		}
		doSeek(id, d)
		if rng.Intn(2) == 0 {
			doNext(id)
		}
		doSeek(id, lo)
		if rng.Intn(2) == 0 {
			doSeek(id, []int{255, 255, 255})
			doSeek(id, d)
		}
	}

	for run.Calls < n {
		x := rng.Intn(100)
		switch {
		case x < 26: // batch
			ops := randomBatch()
			if len(ops) == 0 {
				continue
			}
			doBatch(ops)
			if rng.Intn(2) == 0 {
				probeDeleted(ops)
			}
		case x < 36:
			doReaderOpen()
		case x < 43:
			if id := anyKey(rng, r.readers); id != 0 {
				doReaderClose(id)
			}
		case x < 53: // iterator open
			rid := anyKey(rng, r.readers)
			if rid == 0 || freeIter() == 0 {
				continue
			}
			if rng.Intn(2) == 0 {
				p := pickBound()
				if len(p) == 3 && rng.Intn(2) == 0 {
					p = p[:2]
				}
				doIterOpen(rid, "prefix", p, none)
			} else {
				lo := pickBound()
				hi := none
				if rng.Intn(4) > 0 {
					hi = pickBound()
					if len(hi) == 0 {
						hi = []int{255}
					}
				}
				doIterOpen(rid, "range", lo, hi)
			}
		case x < 72: // seek (forwards, backwards, before the first, after the last, on an exhausted iterator)
			id := anyKey(rng, r.iters)
			if id == 0 {
				continue
			}
			k := pickBound()
			switch rng.Intn(10) {
			case 0:
				k = []int{}
			case 1:
				k = []int{255, 255, 255}
			case 2, 3: // backwards: a proper prefix of the key the iterator last returned
				if lp := lastPos[id]; len(lp) > 0 {
					k = lp[:rng.Intn(len(lp))]
				}
			case 4:
				if len(recentDel) > 0 {
					k = recentDel[rng.Intn(len(recentDel))]
				}
			}
			doSeek(id, k)
		case x < 85:
			if id := anyKey(rng, r.iters); id != 0 {
				doNext(id)
			}
		case x < 88:
			if id := anyKey(rng, r.iters); id != 0 {
				doIterClose(id)
			}
		case x < 92: // get
			rid := anyKey(rng, r.readers)
			if rid == 0 {
				continue
			}
			k := pickKey()
			val, err := r.readers[rid].Get(emb.key(k))
			if err != nil {
				panic(genFail{"get-error", err.Error()})
			}
			ret := none
			if val != nil {
				ret = intsOf(val)
			}
			emit(map[string]any{"name": "Get", "r": rid, "k": nn(k), "ret": ret})
		case x < 94: // multi-get
			rid := anyKey(rng, r.readers)
			if rid == 0 {
				continue
			}
			ks := [][]int{pickKey(), pickKey(), pickKey()}[:1+rng.Intn(3)]
			var rets []any
			m := func() (mm *mismatch) {
				defer func() {
					if p := recover(); p != nil {
						if gf, ok := p.(genFail); ok {
							panic(gf)
						}
						mm = &mismatch{Class: "multiget-panic", Action: "MultiGet", Detail: fmt.Sprintf("MultiGet(%v) panicked: %v", ks, p)}
					}
				}()
				keys := make([][]byte, len(ks))
				for i := range ks {
					keys[i] = emb.key(ks[i])
				}
				vals, err := r.readers[rid].MultiGet(keys)
				if err != nil {
					panic(genFail{"multiget-error", err.Error()})
				}
				for _, val := range vals {
					if val == nil {
						rets = append(rets, none)
					} else {
						rets = append(rets, intsOf(val))
					}
				}
				return nil
			}()
			if m != nil {
				if len(run.Extra) == 0 {
					run.Extra = append(run.Extra, m)
				}
				run.Calls++
				continue
			}
			var evKs []any
			for _, k := range ks {
				evKs = append(evKs, nn(k))
			}
			emit(map[string]any{"name": "MultiGet", "r": rid, "ks": evKs, "ret": rets})
		case x < 97: // full scan of an open reader
			rid := anyKey(rng, r.readers)
			if rid == 0 {
				continue
			}
			got, problem := r.scan(r.readers[rid])
			if problem != "" && !scanProblemRecordable(problem) {
				panic(genFail{"scan-broken", problem})
			}
			emit(map[string]any{"name": "ScanReader", "r": rid, "ret": scanJSON(got)})
		default: // full scan of a reader opened now
			rd, err := r.st.Reader()
			if err != nil {
				panic(genFail{"reader-error", err.Error()})
			}
			got, problem := r.scan(rd)
			_ = rd.Close()
			if problem != "" && !scanProblemRecordable(problem) {
				panic(genFail{"scan-broken", problem})
			}
			emit(map[string]any{"name": "ScanStore", "ret": scanJSON(got)})
		}
	}
	// final full observation: every open reader, then the store
	for rid := 1; rid <= maxR; rid++ {
		if rd, ok := r.readers[rid]; ok {
			got, _ := r.scan(rd)
			emit(map[string]any{"name": "ScanReader", "r": rid, "ret": scanJSON(got)})
		}
	}
	rd, err := r.st.Reader()
	if err == nil {
		got, _ := r.scan(rd)
		_ = rd.Close()
		emit(map[string]any{"name": "ScanStore", "ret": scanJSON(got)})
	}
}

// anyKey picks an id of a non-empty map deterministically (ids are 1..3).
func anyKey[T any](rng *rand.Rand, m map[int]T) int {
	var ids []int
	for c := 1; c <= 3; c++ {
		if _, ok := m[c]; ok {
			ids = append(ids, c)
		}
	}
	if len(ids) == 0 {
		return 0
	}
	return ids[rng.Intn(len(ids))]
}

// a scan that returned a key outside the scanned prefix is recorded as it is (TLC rejects it)
func scanProblemRecordable(p string) bool { return len(p) >= 12 && p[:12] == "scan returne" }
