package c15

import (
	"encoding/json"
	"fmt"
	"hash/fnv"
	"math/rand"
	"os"
	"sort"
	"strings"
	"sync"
	"sync/atomic"
	"time"

	"verif/harness/internal/core"
	"verif/harness/internal/tlc"
)

func init() {
	core.Register(&core.Check{Prop: "C15", Level: "model_checking", Run: run, Replay: replay})
}

// job: one TLC behaviour to be replayed on one store variant.
type job struct {
	Engine  string `json:"engine"`
	Cfg     string `json:"cfg"`
	Variant string `json:"variant"`
	Emb     string `json:"embedding"`
	BatchEx bool   `json:"batch_ex"`
	Steps   []Step `json:"steps"`
	v       variant
	emb     embedding
}

func embByName(n string) embedding {
	switch n {
	case "ff":
		return embFF
	case "raw":
		return embRaw
	}
	return embDict
}

func pathKey(steps []Step) string {
	h := fnv.New64a()
	for i := range steps {
		s := &steps[i]
		fmt.Fprintf(h, "%s|%d|%d|%s|%v|%v|%v|%v|%v;", s.Name, s.R, s.I, s.Kind, s.K, s.Lo, s.Hi, s.Ks, s.Ops)
	}
	return fmt.Sprintf("%x", h.Sum64())
}

type stats struct {
	mu        sync.Mutex
	perVar    map[string]*varStat
	leads     map[string]int
	sampled   int
	panicSeen map[string]bool
	pending      map[string]*pendingViolation
	pendingOrder []string
	confirmed map[string]bool     // signatures confirmed by a reproduced mismatch
	unrepro   map[string][]string // signature -> mismatches that did not reproduce
}

func newStats() *stats {
	return &stats{perVar: map[string]*varStat{}, leads: map[string]int{}, confirmed: map[string]bool{}, unrepro: map[string][]string{}, pending: map[string]*pendingViolation{}}
}

// settleUnreproduced: a mismatch that did not reproduce is inconclusive, unless the same failure
// class on the same store was reproduced by another behaviour (timing-dependent defects).
func (rn *runner) settleUnreproduced() {
	rn.st.mu.Lock()
	defer rn.st.mu.Unlock()
	flaky := map[string]int{}
	for sig, msgs := range rn.st.unrepro {
		if rn.st.confirmed[sig] {
			flaky[sig] = len(msgs)
			continue
		}
		for i, m := range msgs {
			if i < 5 {
				rn.c.Inconclusive(m)
			}
		}
	}
	if len(flaky) > 0 {
		rn.c.Extra("unreproduced_mismatches_of_confirmed_classes", flaky)
	}
	rn.st.unrepro = map[string][]string{}
}

type varStat struct {
	Paths, Steps, Writes, Evals, Mismatches int
}

type runner struct {
	c       *core.Ctx
	base    string
	st      *stats
	seq     int64
	timeout time.Duration
}

// execute replays a job; a mismatch is reported as a violation only when a
// second replay on a fresh store shows it again (DESIGN 3.4).
func (rn *runner) execute(j *job) {
	c := rn.c
	n := int(atomic.AddInt64(&rn.seq, 1))
	res := runPath(j.v, rn.base, n, j.emb, j.BatchEx, j.Steps, rn.timeout)
	c.Eval(res.Evals)
	rn.st.mu.Lock()
	vs := rn.st.perVar[j.v.Name]
	if vs == nil {
		vs = &varStat{}
		rn.st.perVar[j.v.Name] = vs
	}
	vs.Paths++
	vs.Steps += len(j.Steps)
	vs.Writes += res.Writes
	vs.Evals += res.Evals
	for _, l := range res.Leads {
		rn.st.leads[j.v.Name+": "+l]++
	}
	doSample := rn.st.sampled < 3 && res.First == nil && res.Writes > 0 && len(j.Steps) > 4
	if doSample {
		rn.st.sampled++
	}
	rn.st.mu.Unlock()
	if res.Writes > 0 {
		c.Distinct(j.Cfg + "|" + j.v.Name + "|" + j.Emb + "|" + pathKey(j.Steps))
	}
	if doSample {
		c.Sample(map[string]any{"engine": j.Engine, "cfg": j.Cfg, "variant": j.v.Name, "embedding": j.Emb, "actions": actionNames(j.Steps), "comparisons": res.Evals, "result": "conforms"})
	}
	for _, m := range res.Extra {
		rn.violation(j, m, true)
	}
	if res.First == nil {
		return
	}
	rn.st.mu.Lock()
	vs.Mismatches++
	rn.st.mu.Unlock()
	m := res.First
	if strings.HasPrefix(m.Class, "harness-") {
		c.Inconclusive(fmt.Sprintf("%s on %s (%s): %s", m.Class, j.v.Name, j.Cfg, m.String()))
		return
	}
	// reproduce on a fresh store
	repro := false
	for try := 0; try < 5 && !repro; try++ {
		n2 := int(atomic.AddInt64(&rn.seq, 1))
		r2 := runPath(j.v, rn.base, n2, j.emb, j.BatchEx, j.Steps, rn.timeout)
		if r2.First != nil && r2.First.Class == m.Class {
			repro = true
		}
	}
	sig := j.v.Name + ":" + m.Class
	if !repro {
		// decided at the end: inconclusive unless the same failure class was confirmed elsewhere
		rn.st.mu.Lock()
		rn.st.unrepro[sig] = append(rn.st.unrepro[sig], fmt.Sprintf("mismatch on %s did not reproduce: %s", j.v.Name, m.String()))
		rn.st.mu.Unlock()
		return
	}
	rn.st.mu.Lock()
	rn.st.confirmed[sig] = true
	rn.st.mu.Unlock()
	rn.violation(j, m, false)
}

func actionNames(steps []Step) []string {
	out := make([]string, len(steps))
	for i := range steps {
		out[i] = steps[i].Name
	}
	return out
}

// describe gives a run-independent text for the failure classes that have a
// fixed cause (so that the replay artefact name is stable); details are in the artefact.
func describe(m *mismatch) string {
	switch m.Class {
	case "multiget-panic":
		return "Reader.MultiGet panics (index out of range) for any non-empty key list"
	case "iter-prefix-key-out-of-bounds":
		return "a prefix iterator returned a key that does not have the prefix"
	case "iter-range-key-out-of-bounds":
		return "a range iterator returned a key outside [start, end)"
	case "batch-repeated-key-order":
		return "a key set/deleted more than once in one batch does not end with the last operation's value"
	case "scan-disagrees-with-get":
		return "a full scan (PrefixIterator) of a new reader does not list a key that Get on the same reader returns"
	case "reader-isolation":
		return "the full scan of an open reader changed after a later batch: " + fmt.Sprint(m.Expected) + " vs " + fmt.Sprint(m.Got)
	}
	return m.String()
}

// violation queues a confirmed failure; emit() reports it. A wrapper variant (metrics/X, moss+X)
// that fails in the same class as its base adapter is reported under the base adapter's
// signature: it is the same defect seen through a wrapper.
func (rn *runner) violation(j *job, m *mismatch, truncate bool) {
	rn.st.mu.Lock()
	defer rn.st.mu.Unlock()
	key := j.v.Name + ":" + m.Class
	if _, ok := rn.st.pending[key]; ok {
		return
	}
	rn.st.pending[key] = &pendingViolation{j: j, m: m}
	rn.st.pendingOrder = append(rn.st.pendingOrder, key)
}

type pendingViolation struct {
	j *job
	m *mismatch
}

func baseOf(variantName string) string {
	switch {
	case strings.HasPrefix(variantName, "metrics/"):
		return strings.TrimPrefix(variantName, "metrics/")
	case strings.HasPrefix(variantName, "moss+"):
		return "moss"
	}
	return variantName
}

func (rn *runner) emit() {
	rn.st.mu.Lock()
	pend, order := rn.st.pending, rn.st.pendingOrder
	rn.st.pending, rn.st.pendingOrder = map[string]*pendingViolation{}, nil
	rn.st.mu.Unlock()
	sort.Strings(order)
	for _, key := range order {
		pv := pend[key]
		j, m := pv.j, pv.m
		name := j.v.Name
		if b := baseOf(name); b != name {
			if _, ok := pend[b+":"+m.Class]; ok {
				continue // reported under the base adapter
			}
		}
		sig := name + ":" + m.Class
		steps := j.Steps
		if m.StepIdx+1 < len(steps) {
			steps = steps[:m.StepIdx+1]
		}
		what := fmt.Sprintf("KV store %s: %s", name, describe(m))
		rn.c.Violation(sig, what, map[string]any{"engine": "A", "cfg": j.Cfg, "variant": name, "embedding": j.Emb,
			"batch_ex": j.BatchEx, "mismatch": m, "steps": steps})
	}
}

func (rn *runner) runJobs(jobs []*job, par int) {
	ch := make(chan *job, 256)
	var wg sync.WaitGroup
	for i := 0; i < par; i++ {
		wg.Add(1)
		go func() {
			defer wg.Done()
			for j := range ch {
				rn.execute(j)
			}
		}()
	}
	for _, j := range jobs {
		ch <- j
	}
	close(ch)
	wg.Wait()
}

type graphPlan struct {
	cfg      string
	embs     []embedding
	workers  int
	coverAll bool // replay the whole node cover on every variant
	walks    int
	walkLen  int
	diskFrac int // in the quick tier disk-backed variants replay every diskFrac-th cover path
}

func run(c *core.Ctx) error {
	if _, err := mergeOperator(); err != nil {
		return fmt.Errorf("cannot capture upsidedown's merge operator: %v", err)
	}
	vars := variants(c.Thorough())
	base := c.TempDir("kv")
	rn := &runner{c: c, base: base, st: newStats(), timeout: 60 * time.Second}
	rng := rand.New(rand.NewSource(c.Seed))
	par := 8

	c.SetRule("a TLC behaviour of KVStore.tla (graph path, random graph walk or -simulate behaviour) with at least one batch, replayed on one store variant under one key embedding, all reads compared after every step; plus one recorded random run per (variant, seed) judged by TraceKV")
	c.SetExhaustive(false)
	c.Assume("merge operands are generated only on keys whose value is empty or a one-byte uvarint count (upsidedown dictionary rows); a key is never merged and set/deleted in the same batch")
	c.Assume("bbolt, goleveldb, moss, gtreap internals are trusted; only the adapters' observable contract is exercised")
	c.Assume("Next on an exhausted iterator and Key()/Value() of an invalid iterator are outside the contract and not compared")

	// ---- 1. the model decides: exhaustive TLC runs (in parallel with the graph dumps below)
	var wg sync.WaitGroup
	// (quick tier: the four exhaustively enumerated graph configs below are the model check;
	//  thorough tier: two larger configs in addition, run while Engine A replays)
	// ---- 2. Engine A on exhaustively enumerated state graphs
	only := os.Getenv("VERIF_C15_ONLY") // developer switch: "A" or "B" runs one engine only
	plans := []graphPlan{
		{cfg: "KVStore_mc_tiny.cfg", embs: []embedding{embRaw, embFF, embDict}, workers: 2, coverAll: true, walks: c.Pick(120, 1500), walkLen: c.Pick(40, 60), diskFrac: c.Pick(8, 2)},
		{cfg: "KVStore_mc_tinyval.cfg", embs: []embedding{embDict, embFF}, workers: 3, coverAll: true, walks: c.Pick(80, 1000), walkLen: c.Pick(30, 50), diskFrac: c.Pick(8, 2)},
		{cfg: "KVStore_mc_succ.cfg", embs: []embedding{embRaw, embDict}, workers: 2, coverAll: true, walks: c.Pick(20, 300), walkLen: 30, diskFrac: c.Pick(8, 1)},
		{cfg: "KVStore_mc_repeat.cfg", embs: []embedding{embRaw, embDict}, workers: 2, coverAll: true, walks: c.Pick(20, 200), walkLen: 12, diskFrac: c.Pick(2, 1)},
	}
	if only == "B" {
		plans = nil
	}
	graphs := make([]*graph, len(plans))
	gerrs := make([]error, len(plans))
	for i := range plans {
		wg.Add(1)
		go func(i int) {
			defer wg.Done()
			graphs[i], gerrs[i] = dumpGraph(c, plans[i].cfg, plans[i].workers, time.Duration(c.Pick(10, 25))*time.Minute)
		}(i)
	}
	// ---- 3. Engine A on TLC -simulate behaviours (longer, bigger constants)
	var simBehs []tlc.Behaviour
	var simErr error
	wg.Add(1)
	go func() {
		defer wg.Done()
		if only == "B" {
			return
		}
		simBehs, simErr = c.Simulate("KVStore", "KVStore_sim.cfg", c.Pick(40, 400), c.Pick(40, 60), c.Seed)
	}()
	// ---- 4. Engine B generation runs meanwhile (real stores, no TLC yet)
	var runsB []*runB
	wg.Add(1)
	go func() {
		defer wg.Done()
		if only == "A" {
			return
		}
		runsB = generateAllB(c, vars, base, c.Pick(8, 24), c.Pick(150, 400))
	}()
	wg.Wait()

	for i, err := range gerrs {
		if err != nil {
			return fmt.Errorf("state graph of %s: %v", plans[i].cfg, err)
		}
	}
	var mcWG sync.WaitGroup
	if c.Thorough() && only == "" {
		for _, mcCfg := range []string{"KVStore_mc_quick.cfg", "KVStore_mc_thorough.cfg"} {
			mcWG.Add(1)
			go func(mcCfg string) {
				defer mcWG.Done()
				c.ModelCheck("KVStore", mcCfg, core.Workers(3), core.Timeout(25*time.Minute))
			}(mcCfg)
		}
	}
	defer mcWG.Wait()
	if simErr != nil {
		return fmt.Errorf("simulate: %v", simErr)
	}

	var jobs []*job
	graphInfo := map[string]any{}
	for gi, g := range graphs {
		pl := plans[gi]
		cover := g.coverPaths()
		nEdges := 0
		for _, s := range g.succ {
			nEdges += len(s)
		}
		graphInfo[pl.cfg] = map[string]any{"states": len(g.steps), "edges": nEdges, "cover_paths": len(cover), "random_walks": pl.walks}
		for pi, p := range cover {
			steps := g.stepsOf(p)
			for vi, v := range vars {
				if v.Disk && pl.diskFrac > 1 && (pi+vi)%pl.diskFrac != int(c.Seed)%pl.diskFrac {
					continue
				}
				emb := pl.embs[(pi+vi+int(c.Seed))%len(pl.embs)]
				jobs = append(jobs, &job{Engine: "A-graph-cover", Cfg: pl.cfg, Variant: v.Name, Emb: emb.Name, BatchEx: (pi+vi)%2 == 0, Steps: steps, v: v, emb: emb})
			}
		}
		for w := 0; w < pl.walks; w++ {
			steps := g.stepsOf(g.walk(rng, pl.walkLen))
			for vi, v := range vars {
				emb := pl.embs[(w+vi)%len(pl.embs)]
				jobs = append(jobs, &job{Engine: "A-graph-walk", Cfg: pl.cfg, Variant: v.Name, Emb: emb.Name, BatchEx: (w+vi)%2 == 1, Steps: steps, v: v, emb: emb})
			}
		}
	}
	simEmbs := []embedding{embDict, embFF}
	for bi, beh := range simBehs {
		steps := make([]Step, 0, len(beh))
		for _, st := range beh {
			s, err := stepOf(st)
			if err != nil {
				return err
			}
			steps = append(steps, s)
		}
		for vi, v := range vars {
			emb := simEmbs[(bi+vi)%2]
			jobs = append(jobs, &job{Engine: "A-simulate", Cfg: "KVStore_sim.cfg", Variant: v.Name, Emb: emb.Name, BatchEx: (bi+vi)%2 == 0, Steps: steps, v: v, emb: emb})
		}
	}
	c.Logf("engine A: %d replay jobs (%d graphs, %d simulated behaviours, %d variants)", len(jobs), len(graphs), len(simBehs), len(vars))
	rng.Shuffle(len(jobs), func(i, j int) { jobs[i], jobs[j] = jobs[j], jobs[i] })
	rn.runJobs(jobs, par)
	c.Traces(len(jobs))
	rn.settleUnreproduced()
	rn.emit()
	c.Logf("engine A done")

	// ---- Engine B: TLC judges the recorded runs
	if err := judgeB(c, rn, vars, runsB); err != nil {
		return err
	}

	// ---- Engine C: concurrent readers while batches execute, judged by TraceKVConc
	var runsC []*runC
	for vi := range vars {
		v := vars[vi]
		for k := 0; k < c.Pick(2, 6); k++ {
			runsC = append(runsC, generateC(v, dirFor(rn, &v), c.Seed*97+int64(k), c.Pick(40, 60), k%2 == 1)) // <= 60 batches: merged counts stay one-byte uvarints
		}
	}
	if err := judgeC(c, rn, vars, runsC); err != nil {
		return err
	}

	c.Extra("graphs", graphInfo)
	pv := map[string]any{}
	for k, v := range rn.st.perVar {
		pv[k] = v
	}
	c.Extra("engine_a_per_variant", pv)
	var vnames []string
	for _, v := range vars {
		vnames = append(vnames, v.Name)
	}
	c.Extra("variants", vnames)
	if len(rn.st.leads) > 0 {
		var ls []string
		for l, n := range rn.st.leads {
			ls = append(ls, fmt.Sprintf("%s (x%d)", l, n))
		}
		sort.Strings(ls)
		if len(ls) > 10 {
			ls = ls[:10]
		}
		c.Extra("leads_nil_vs_empty", ls)
	}
	return nil
}

// replay re-executes a saved violation artefact.
func replay(c *core.Ctx, path string) error {
	b, err := os.ReadFile(path)
	if err != nil {
		return err
	}
	var art struct {
		Signature string `json:"signature"`
		Replay    struct {
			Engine  string `json:"engine"`
			Cfg     string `json:"cfg"`
			Variant string `json:"variant"`
			Emb     string `json:"embedding"`
			BatchEx bool   `json:"batch_ex"`
			Steps   []Step `json:"steps"`
			Run     *runB  `json:"run"`
		} `json:"replay"`
	}
	if err := json.Unmarshal(b, &art); err != nil {
		return err
	}
	if _, err := mergeOperator(); err != nil {
		return err
	}
	vars := variants(true)
	var v *variant
	for i := range vars {
		if vars[i].Name == art.Replay.Variant {
			v = &vars[i]
		}
	}
	if v == nil {
		return fmt.Errorf("unknown variant %q", art.Replay.Variant)
	}
	base := c.TempDir("kv")
	rn := &runner{c: c, base: base, st: newStats(), timeout: 60 * time.Second}
	c.SetRule("replay of one saved artefact")
	if art.Replay.Engine == "B" {
		if art.Replay.Run == nil {
			return fmt.Errorf("artefact has no run")
		}
		r := art.Replay.Run
		run := generateB(*v, mkdir(base, 1), embByName(r.Emb), r.Seed, r.N, r.BatchEx, 2*time.Minute)
		return judgeB(c, rn, vars, []*runB{run})
	}
	j := &job{Engine: "A-replay", Cfg: art.Replay.Cfg, Variant: v.Name, Emb: art.Replay.Emb, BatchEx: art.Replay.BatchEx, Steps: art.Replay.Steps, v: *v, emb: embByName(art.Replay.Emb)}
	rn.execute(j)
	rn.settleUnreproduced()
	rn.emit()
	c.Traces(1)
	return nil
}
