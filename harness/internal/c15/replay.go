package c15

import (
	"bytes"
	"fmt"
	"os"
	"sort"
	"time"

	store "github.com/blevesearch/upsidedown_store_api"
)

// mismatch: a real observable differs from what the spec computed.
type mismatch struct {
	Class    string `json:"class"` // stable failure class (signature component)
	StepIdx  int    `json:"step"`
	Action   string `json:"action"`
	Expected any    `json:"expected"`
	Got      any    `json:"got"`
	Detail   string `json:"detail"`
	Lead     bool   `json:"lead,omitempty"` // nil-vs-empty only: not a property failure
}

func (m *mismatch) String() string {
	return fmt.Sprintf("%s at step %d (%s): expected %v, got %v %s", m.Class, m.StepIdx, m.Action, m.Expected, m.Got, m.Detail)
}

type real struct {
	emb     embedding
	batchEx bool
	st      store.KVStore
	readers map[int]store.KVReader
	iters   map[int]store.KVIterator
	itInfo  map[int]IterSt
	evals   int
	leads   []string
}

func newReal(v variant, dir string, emb embedding, batchEx bool) (*real, error) {
	st, err := v.Open(dir)
	if err != nil {
		return nil, err
	}
	return &real{emb: emb, batchEx: batchEx, st: st, readers: map[int]store.KVReader{}, iters: map[int]store.KVIterator{}, itInfo: map[int]IterSt{}}, nil
}

func (r *real) close() {
	for _, it := range r.iters {
		_ = it.Close()
	}
	for _, rd := range r.readers {
		_ = rd.Close()
	}
	_ = r.st.Close()
}

// execBatch builds a real batch from model ops and executes it the way
// upsidedown does (NewBatchEx with a pre-sized buffer, or plain NewBatch).
func (r *real) execBatch(ops []Op) error {
	w, err := r.st.Writer()
	if err != nil {
		return fmt.Errorf("Writer: %v", err)
	}
	defer w.Close()
	var b store.KVBatch
	var buf []byte
	if r.batchEx {
		opt := store.KVBatchOptions{}
		for _, o := range ops {
			k := r.emb.key(o.K)
			switch o.Op {
			case "set":
				opt.NumSets++
				opt.TotalBytes += len(k) + len(o.V)
			case "del":
				opt.NumDeletes++
				opt.TotalBytes += len(k)
			case "merge":
				opt.NumMerges++
				opt.TotalBytes += 2 * (len(k) + 10) // as upsidedown sizes it: moss copies merges once more
			}
		}
		buf, b, err = w.NewBatchEx(opt)
		if err != nil {
			return fmt.Errorf("NewBatchEx: %v", err)
		}
	} else {
		b = w.NewBatch()
	}
	if b == nil {
		return fmt.Errorf("NewBatch returned nil")
	}
	// like upsidedown.batchRows: key and value are consecutive slices of the batch's own buffer
	// (moss's AllocSet derives offsets from their capacities)
	alloc := func(k, v []byte) ([]byte, []byte) {
		if !r.batchEx {
			return k, v
		}
		n := copy(buf, k)
		m := copy(buf[n:], v)
		kb, vb := buf[:n], buf[n:n+m]
		buf = buf[n+m:]
		return kb, vb
	}
	for _, o := range ops {
		switch o.Op {
		case "set":
			k, v := alloc(r.emb.key(o.K), valBytes(o.V))
			b.Set(k, v)
		case "del":
			k, _ := alloc(r.emb.key(o.K), nil)
			b.Delete(k)
		case "merge":
			k, v := alloc(r.emb.key(o.K), operandFor(o.D, r.batchEx))
			b.Merge(k, v)
		}
	}
	err = w.ExecuteBatch(b)
	_ = b.Close()
	if err != nil {
		return fmt.Errorf("ExecuteBatch: %v", err)
	}
	return nil
}

// scan reads everything under the embedding's prefix through a prefix iterator.
func (r *real) scan(rd store.KVReader) ([]KVPair, string) {
	it := rd.PrefixIterator(r.emb.bound(nil))
	if it == nil {
		return nil, "PrefixIterator returned nil"
	}
	defer it.Close()
	out := []KVPair{}
	problem := ""
	for n := 0; it.Valid(); it.Next() {
		k, v, ok := it.Current()
		if !ok {
			return out, "Current() invalid while Valid()"
		}
		mk, in := r.emb.unkey(k)
		if !in && problem == "" {
			problem = fmt.Sprintf("scan returned key %v outside the scanned prefix", k)
		}
		out = append(out, KVPair{K: mk, V: intsOf(v)})
		if n++; n > 10000 {
			return out, "scan does not terminate"
		}
	}
	return out, problem
}

func eqScan(a, b []KVPair) bool {
	if len(a) != len(b) {
		return false
	}
	for i := range a {
		if !eqInts(a[i].K, b[i].K) || !eqInts(a[i].V, b[i].V) {
			return false
		}
	}
	return true
}

// current reads the iterator's position through all four accessors.
func (r *real) current(it store.KVIterator) (Ret, string) {
	valid := it.Valid()
	ck, cv, cok := it.Current()
	if cok != valid {
		return Ret{}, fmt.Sprintf("Valid()=%v but Current() valid=%v", valid, cok)
	}
	if !valid {
		return Ret{Valid: false, K: none, V: none}, ""
	}
	k, v := it.Key(), it.Value()
	if !bytes.Equal(k, ck) || !bytes.Equal(v, cv) {
		return Ret{}, fmt.Sprintf("Key()/Value()=%v/%v differ from Current()=%v/%v", k, v, ck, cv)
	}
	mk, in := r.emb.unkey(k)
	if !in {
		return Ret{Valid: true, K: mk, V: intsOf(v)}, "key outside the store's key space"
	}
	return Ret{Valid: true, K: mk, V: intsOf(v)}, ""
}

func iterClass(kind string, action string, lo, hi []int, got Ret, emb embedding) string {
	if got.Valid {
		in := true
		if kind == "prefix" {
			in = len(got.K) >= len(lo) && eqInts(got.K[:len(lo)], lo)
		} else {
			in = cmpInts(got.K, lo) >= 0 && (isNone(hi) || cmpInts(got.K, hi) < 0)
		}
		if !in {
			return "iter-" + kind + "-key-out-of-bounds"
		}
	}
	return "iter-" + kind + "-" + action
}

// cmpInts is used ONLY to classify an already detected mismatch (signature), never as oracle.
func cmpInts(a, b []int) int {
	for i := 0; i < len(a) && i < len(b); i++ {
		if a[i] != b[i] {
			if a[i] < b[i] {
				return -1
			}
			return 1
		}
	}
	return len(a) - len(b)
}

func (r *real) checkIter(idx int, s *Step, it store.KVIterator, info IterSt, exp Ret, action string) *mismatch {
	got, problem := r.current(it)
	r.evals++
	if problem != "" && problem != "key outside the store's key space" {
		return &mismatch{Class: "iter-accessors-inconsistent", StepIdx: idx, Action: s.Name, Expected: exp, Got: got, Detail: problem}
	}
	bad := got.Valid != exp.Valid
	if !bad && exp.Valid {
		bad = !eqInts(got.K, exp.K) || !eqInts(got.V, exp.V) || problem != ""
	}
	if bad {
		cl := iterClass(info.Kind, action, info.Lo, info.Hi, got, r.emb)
		detail := fmt.Sprintf("iterator %s lo=%v hi=%v %s", info.Kind, info.Lo, info.Hi, problem)
		// the iterator passed over the key the model expects: does a point read on the same reader find it?
		if rd, ok := r.readers[info.Rd]; ok && exp.Valid && (!got.Valid || !eqInts(got.K, exp.K)) {
			if v, err := rd.Get(r.emb.key(exp.K)); err == nil && v != nil && eqInts(intsOf(v), exp.V) {
				cl = "scan-disagrees-with-get"
				detail += " (Get on the same reader returns the key the iterator skipped)"
			}
		}
		return &mismatch{Class: cl, StepIdx: idx, Action: s.Name, Expected: exp, Got: got, Detail: detail}
	}
	return nil
}

func (r *real) checkGet(idx int, s *Step, rd store.KVReader, k []int, exp []int, who string) *mismatch {
	v, err := rd.Get(r.emb.key(k))
	r.evals++
	if err != nil {
		return &mismatch{Class: "get-error", StepIdx: idx, Action: s.Name, Detail: fmt.Sprintf("%s Get(%v): %v", who, k, err)}
	}
	if isNone(exp) {
		if v != nil {
			return &mismatch{Class: "get-absent-key-not-nil", StepIdx: idx, Action: s.Name, Expected: "nil", Got: intsOf(v), Detail: fmt.Sprintf("%s Get(%v)", who, k)}
		}
		return nil
	}
	if v == nil {
		if len(exp) == 0 {
			// present-but-empty value returned as nil: a lead only (DESIGN section 6); presence is decided by the scans
			r.leads = append(r.leads, fmt.Sprintf("%s Get(%v) returned nil for a present empty value", who, k))
			return nil
		}
		return &mismatch{Class: "get-present-key-nil", StepIdx: idx, Action: s.Name, Expected: exp, Got: "nil", Detail: fmt.Sprintf("%s Get(%v)", who, k)}
	}
	if !eqInts(intsOf(v), exp) {
		return &mismatch{Class: "get-wrong-value", StepIdx: idx, Action: s.Name, Expected: exp, Got: intsOf(v), Detail: fmt.Sprintf("%s Get(%v)", who, k)}
	}
	return nil
}

func (r *real) checkMultiGet(idx int, s *Step, rd store.KVReader, ks [][]int, exp [][]int, who string) (mm *mismatch) {
	defer func() {
		if p := recover(); p != nil {
			mm = &mismatch{Class: "multiget-panic", StepIdx: idx, Action: s.Name, Detail: fmt.Sprintf("%s MultiGet(%v) panicked: %v", who, ks, p)}
		}
	}()
	keys := make([][]byte, len(ks))
	for i, k := range ks {
		keys[i] = r.emb.key(k)
	}
	vals, err := rd.MultiGet(keys)
	r.evals++
	if err != nil {
		return &mismatch{Class: "multiget-error", StepIdx: idx, Action: s.Name, Detail: fmt.Sprintf("%s MultiGet: %v", who, err)}
	}
	if len(vals) != len(exp) {
		return &mismatch{Class: "multiget-length", StepIdx: idx, Action: s.Name, Expected: len(exp), Got: len(vals), Detail: who}
	}
	for i := range exp {
		switch {
		case isNone(exp[i]) && vals[i] != nil,
			!isNone(exp[i]) && vals[i] == nil && len(exp[i]) > 0,
			!isNone(exp[i]) && vals[i] != nil && !eqInts(intsOf(vals[i]), exp[i]):
			return &mismatch{Class: "multiget-misaligned", StepIdx: idx, Action: s.Name, Expected: exp, Got: fmt.Sprint(vals), Detail: fmt.Sprintf("%s MultiGet(%v) position %d", who, ks, i)}
		}
	}
	return nil
}

// probes: every key of the model's key space, plus keys that were never written
func probeKeys(s *Step) [][]int {
	out := append([][]int{}, s.Keys...)
	for _, k := range s.Keys {
		out = append(out, append(append([]int{}, k...), 0))
	}
	out = append(out, []int{255, 255, 255, 255})
	return out
}

// observeAll compares everything observable on the real store with the model state.
func (r *real) observeAll(idx int, s *Step, multiget bool) (first *mismatch, extra []*mismatch) {
	add := func(m *mismatch) {
		if m == nil {
			return
		}
		if m.Class == "multiget-panic" {
			extra = append(extra, m) // does not disturb the store: keep checking
			return
		}
		if first == nil {
			first = m
		}
	}
	// a reader opened now sees exactly the model's current map
	fresh, err := r.st.Reader()
	if err != nil {
		return &mismatch{Class: "reader-error", StepIdx: idx, Action: s.Name, Detail: err.Error()}, nil
	}
	got, problem := r.scan(fresh)
	r.evals++
	probes := probeKeys(s)
	if problem != "" || !eqScan(got, s.KVS) {
		cl := "store-contents"
		if s.Name == "ExecuteBatch" {
			cl = batchClass(s.Ops)
		}
		// do the point reads of the same reader agree with the model? then the iteration is at
		// fault, not the batch (signature: scan-disagrees-with-get)
		getsOK := true
		for _, k := range probes {
			if r.checkGet(idx, s, fresh, k, lookup(s.KVS, k), "new reader") != nil {
				getsOK = false
			}
		}
		detail := "full scan of a new reader " + problem
		if getsOK && problem == "" && cl != "batch-repeated-key-order" {
			cl = "scan-disagrees-with-get"
			detail = "full scan of a new reader misses/adds keys although every Get of the same reader agrees with the model"
		}
		add(&mismatch{Class: cl, StepIdx: idx, Action: s.Name, Expected: s.KVS, Got: got, Detail: detail})
	}
	for _, k := range probes {
		add(r.checkGet(idx, s, fresh, k, lookup(s.KVS, k), "new reader"))
	}
	if multiget {
		exp := make([][]int, len(probes))
		for i, k := range probes {
			exp[i] = lookup(s.KVS, k)
		}
		add(r.checkMultiGet(idx, s, fresh, probes, exp, "new reader"))
	}
	_ = fresh.Close()
	// every open reader still sees its snapshot (reader isolation)
	rids := make([]int, 0, len(r.readers))
	for id := range r.readers {
		rids = append(rids, id)
	}
	sort.Ints(rids)
	for _, id := range rids {
		rd := r.readers[id]
		exp := s.Readers[id]
		if !exp.Open {
			add(&mismatch{Class: "harness-reader-bookkeeping", StepIdx: idx, Action: s.Name, Detail: fmt.Sprintf("reader %d open in harness, closed in model", id)})
			continue
		}
		got, problem := r.scan(rd)
		r.evals++
		if problem != "" || !eqScan(got, exp.Scan) {
			add(&mismatch{Class: "reader-isolation", StepIdx: idx, Action: s.Name, Expected: exp.Scan, Got: got, Detail: fmt.Sprintf("full scan of reader %d opened earlier %s", id, problem)})
		}
		for _, k := range probes {
			m := r.checkGet(idx, s, rd, k, lookup(exp.Scan, k), fmt.Sprintf("reader %d", id))
			if m != nil {
				m.Class = "reader-isolation-" + m.Class
			}
			add(m)
		}
	}
	// every open iterator still stands where the model says
	iids := make([]int, 0, len(r.iters))
	for id := range r.iters {
		iids = append(iids, id)
	}
	sort.Ints(iids)
	for _, id := range iids {
		exp := s.Iters[id]
		e := Ret{Valid: exp.Valid, K: exp.Cur, V: none}
		if exp.Valid {
			e.V = lookup(s.Readers[exp.Rd].Scan, exp.Cur)
		}
		m := r.checkIter(idx, s, r.iters[id], exp, e, "position-changed")
		add(m)
	}
	return first, extra
}

func batchClass(ops []Op) string {
	seen := map[string]bool{}
	merge := false
	for _, o := range ops {
		if o.Op == "merge" {
			merge = true
			continue
		}
		k := fmt.Sprint(o.K)
		if seen[k] {
			return "batch-repeated-key-order"
		}
		seen[k] = true
	}
	if merge {
		return "batch-with-merge"
	}
	return "batch-set-delete"
}

// apply executes one model step on the real store and compares the direct return value.
func (r *real) apply(idx int, s *Step) *mismatch {
	switch s.Name {
	case "Init", "BatchAdd", "Reset":
		return nil
	case "ExecuteBatch":
		if err := r.execBatch(s.Ops); err != nil {
			return &mismatch{Class: "batch-error", StepIdx: idx, Action: s.Name, Detail: err.Error()}
		}
	case "ReaderOpen":
		rd, err := r.st.Reader()
		if err != nil {
			return &mismatch{Class: "reader-error", StepIdx: idx, Action: s.Name, Detail: err.Error()}
		}
		r.readers[s.R] = rd
	case "ReaderClose":
		rd := r.readers[s.R]
		delete(r.readers, s.R)
		if err := rd.Close(); err != nil {
			return &mismatch{Class: "reader-close-error", StepIdx: idx, Action: s.Name, Detail: err.Error()}
		}
	case "Get":
		return r.checkGet(idx, s, r.readers[s.R], s.K, s.RetVal, fmt.Sprintf("reader %d", s.R))
	case "MultiGet":
		return r.checkMultiGet(idx, s, r.readers[s.R], s.Ks, s.RetVals, fmt.Sprintf("reader %d", s.R))
	case "ScanReader", "ScanStore":
		rd := r.readers[s.R]
		if s.Name == "ScanStore" {
			var err error
			rd, err = r.st.Reader()
			if err != nil {
				return &mismatch{Class: "reader-error", StepIdx: idx, Action: s.Name, Detail: err.Error()}
			}
			defer rd.Close()
		}
		got, problem := r.scan(rd)
		r.evals++
		if problem != "" || !eqScan(got, s.RetScan) {
			return &mismatch{Class: "scan", StepIdx: idx, Action: s.Name, Expected: s.RetScan, Got: got, Detail: problem}
		}
	case "IterOpen":
		rd := r.readers[s.R]
		var it store.KVIterator
		if s.Kind == "prefix" {
			it = rd.PrefixIterator(r.emb.bound(s.Lo))
		} else {
			var end []byte
			if !isNone(s.Hi) {
				end = r.emb.key(s.Hi)
			}
			it = rd.RangeIterator(r.emb.bound(s.Lo), end)
		}
		if it == nil {
			return &mismatch{Class: "iter-open-nil", StepIdx: idx, Action: s.Name}
		}
		r.iters[s.I] = it
		r.itInfo[s.I] = IterSt{Kind: s.Kind, Lo: s.Lo, Hi: s.Hi, Rd: s.R}
		return r.checkIter(idx, s, it, r.itInfo[s.I], *s.RetIter, "open")
	case "Seek":
		it := r.iters[s.I]
		it.Seek(r.emb.key(s.K))
		return r.checkIter(idx, s, it, r.itInfo[s.I], *s.RetIter, "seek")
	case "Next":
		it := r.iters[s.I]
		it.Next()
		return r.checkIter(idx, s, it, r.itInfo[s.I], *s.RetIter, "next")
	case "IterClose":
		it := r.iters[s.I]
		delete(r.iters, s.I)
		delete(r.itInfo, s.I)
		if err := it.Close(); err != nil {
			return &mismatch{Class: "iter-close-error", StepIdx: idx, Action: s.Name, Detail: err.Error()}
		}
	default:
		return &mismatch{Class: "harness-unknown-action", StepIdx: idx, Action: s.Name}
	}
	return nil
}

type pathResult struct {
	First  *mismatch   // first mismatch that ends the path (nil: path conforms)
	Extra  []*mismatch // mismatches that do not disturb the store (MultiGet panics)
	Evals  int
	Leads  []string
	Writes int
	Hang   bool
}

// runPath replays one behaviour on a fresh store of the variant, under a watchdog.
func runPath(v variant, base string, n int, emb embedding, batchEx bool, steps []Step, timeout time.Duration) pathResult {
	done := make(chan pathResult, 1)
	dir := ""
	if v.Disk {
		dir = mkdir(base, n)
	}
	cur := make(chan string, 1)
	go func() {
		var res pathResult
		var r *real
		defer func() {
			if p := recover(); p != nil {
				act := ""
				select {
				case act = <-cur:
				default:
				}
				res.First = &mismatch{Class: "panic", Action: act, Detail: fmt.Sprintf("panic: %v", p)}
			}
			if r != nil {
				res.Evals = r.evals
				res.Leads = r.leads
				func() {
					defer func() { _ = recover() }()
					r.close()
				}()
			}
			done <- res
		}()
		var err error
		r, err = newReal(v, dir, emb, batchEx)
		if err != nil {
			res.First = &mismatch{Class: "harness-open-failed", Detail: err.Error()}
			return
		}
		for i := range steps {
			s := &steps[i]
			select {
			case <-cur:
			default:
			}
			cur <- s.Name
			if s.Name == "ExecuteBatch" {
				res.Writes++
			}
			if m := r.apply(i, s); m != nil {
				if m.Class == "multiget-panic" {
					res.Extra = append(res.Extra, m)
				} else {
					res.First = m
					return
				}
			}
			first, extra := r.observeAll(i, s, true)
			res.Extra = append(res.Extra, extra...)
			if first != nil {
				res.First = first
				return
			}
		}
	}()
	var res pathResult
	select {
	case res = <-done:
	case <-time.After(timeout):
		act := ""
		select {
		case act = <-cur:
		default:
		}
		res = pathResult{Hang: true, First: &mismatch{Class: "hang", Action: act, Detail: fmt.Sprintf("no progress for %s", timeout)}}
	}
	if dir != "" && !res.Hang {
		_ = os.RemoveAll(dir)
	}
	return res
}
