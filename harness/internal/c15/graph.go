package c15

import (
	"bufio"
	"fmt"
	"math/rand"
	"os"
	"path/filepath"
	"strings"
	"time"

	"verif/harness/internal/core"
	"verif/harness/internal/tlaval"
	"verif/harness/internal/tlc"
)

// graph is the complete reachable state graph of a tiny KVStore config, as
// dumped by TLC (`-dump dot`). Every node is a TLC state (including `act`,
// the action that produced it), every edge a TLC-computed transition.
type graph struct {
	steps []Step    // node -> interpreted state
	succ  [][]int32 // node -> successors
	init  int
	res   *tlc.Result
}

func unescapeDot(s string) string {
	var sb strings.Builder
	for i := 0; i < len(s); i++ {
		if s[i] == '\\' && i+1 < len(s) {
			i++
			switch s[i] {
			case 'n':
				sb.WriteByte('\n')
			default:
				sb.WriteByte(s[i])
			}
			continue
		}
		sb.WriteByte(s[i])
	}
	return sb.String()
}

// label extracts the quoted string after `label="` (handling escaped quotes).
func dotLabel(line string) (string, bool) {
	i := strings.Index(line, `[label="`)
	if i < 0 {
		return "", false
	}
	j := i + len(`[label="`)
	k := j
	for k < len(line) {
		if line[k] == '\\' {
			k += 2
			continue
		}
		if line[k] == '"' {
			return line[j:k], true
		}
		k++
	}
	return "", false
}

// dumpGraph model-checks the config exhaustively (all invariants and action
// properties of the cfg) and returns its state graph.
func dumpGraph(c *core.Ctx, cfg string, workers int, timeout time.Duration) (*graph, error) {
	o := c.TLCOpts("KVStore", cfg, core.Workers(workers), core.Timeout(timeout))
	o.KeepDir = true
	dumpDir, err := os.MkdirTemp(c.Scratch, "dot-")
	if err != nil {
		return nil, err
	}
	defer os.RemoveAll(dumpDir)
	dot := filepath.Join(dumpDir, "g.dot")
	o.Args = append(o.Args, "-dump", "dot", dot)
	res, err := tlc.Run(o)
	if res != nil {
		defer os.RemoveAll(res.RunDir)
	}
	c.Account("KVStore", cfg, "exhaustive+dump", res)
	if err != nil {
		return nil, err
	}
	if !res.OK {
		return nil, fmt.Errorf("TLC KVStore/%s did not pass (violated=%q): %s", cfg, res.Violated, res.ErrorText)
	}
	f, err := os.Open(dot)
	if err != nil {
		return nil, err
	}
	defer f.Close()
	g := &graph{res: res, init: -1}
	ids := map[string]int{}
	type edge struct{ a, b string }
	var edges []edge
	sc := bufio.NewScanner(f)
	sc.Buffer(make([]byte, 1<<20), 1<<28)
	for sc.Scan() {
		ln := sc.Text()
		if len(ln) == 0 || !(ln[0] == '-' || (ln[0] >= '0' && ln[0] <= '9')) {
			continue
		}
		sp := strings.IndexByte(ln, ' ')
		if sp < 0 {
			continue
		}
		id := ln[:sp]
		rest := ln[sp+1:]
		if strings.HasPrefix(rest, "-> ") {
			rest = rest[3:]
			sp2 := strings.IndexAny(rest, " ;[")
			if sp2 < 0 {
				continue
			}
			edges = append(edges, edge{id, rest[:sp2]})
			continue
		}
		lab, ok := dotLabel(rest)
		if !ok {
			continue
		}
		if _, dup := ids[id]; dup {
			continue
		}
		st, err := tlaval.ParseState(unescapeDot(lab))
		if err != nil {
			return nil, fmt.Errorf("dot node %s: %v", id, err)
		}
		s, err := stepOf(st)
		if err != nil {
			return nil, err
		}
		ids[id] = len(g.steps)
		if s.Name == "Init" {
			g.init = len(g.steps)
		}
		g.steps = append(g.steps, s)
	}
	if err := sc.Err(); err != nil {
		return nil, err
	}
	if int64(len(g.steps)) != res.Distinct {
		return nil, fmt.Errorf("dot dump of %s has %d nodes, TLC reported %d distinct states", cfg, len(g.steps), res.Distinct)
	}
	if g.init < 0 {
		return nil, fmt.Errorf("dot dump of %s: no initial state", cfg)
	}
	g.succ = make([][]int32, len(g.steps))
	for _, e := range edges {
		a, ok1 := ids[e.a]
		b, ok2 := ids[e.b]
		if !ok1 || !ok2 {
			return nil, fmt.Errorf("dot dump of %s: edge with unknown node", cfg)
		}
		if a != b {
			g.succ[a] = append(g.succ[a], int32(b))
		}
	}
	return g, nil
}

// coverPaths returns the root-to-leaf paths of a BFS spanning tree: every
// state of the graph lies on at least one of them (node cover).
func (g *graph) coverPaths() [][]int32 {
	parent := make([]int32, len(g.steps))
	for i := range parent {
		parent[i] = -2
	}
	hasChild := make([]bool, len(g.steps))
	parent[g.init] = -1
	queue := []int32{int32(g.init)}
	for len(queue) > 0 {
		n := queue[0]
		queue = queue[1:]
		for _, m := range g.succ[n] {
			if parent[m] == -2 {
				parent[m] = n
				hasChild[n] = true
				queue = append(queue, m)
			}
		}
	}
	var out [][]int32
	for n := range g.steps {
		if parent[n] == -2 || hasChild[n] {
			continue
		}
		var p []int32
		for x := int32(n); x >= 0; x = parent[x] {
			p = append(p, x)
		}
		for i, j := 0, len(p)-1; i < j; i, j = i+1, j-1 {
			p[i], p[j] = p[j], p[i]
		}
		out = append(out, p)
	}
	return out
}

// walk is a random walk of the given length; action classes are weighted so
// that writes, reader churn and iterator moves all occur (TLC's own simulator
// picks uniformly among successor states, which starves the rare classes).
func (g *graph) walk(rng *rand.Rand, length int) []int32 {
	weights := map[string]int{"ExecuteBatch": 6, "ReaderOpen": 3, "ReaderClose": 2, "IterOpen": 3, "Seek": 5, "Next": 3, "IterClose": 1}
	p := []int32{int32(g.init)}
	cur := int32(g.init)
	for len(p) < length {
		ss := g.succ[cur]
		if len(ss) == 0 {
			break
		}
		by := map[string][]int32{}
		var names []string
		for _, m := range ss {
			n := g.steps[m].Name
			if _, ok := by[n]; !ok {
				names = append(names, n)
			}
			by[n] = append(by[n], m)
		}
		tot := 0
		for _, n := range names {
			w := weights[n]
			if w == 0 {
				w = 1
			}
			tot += w
		}
		x := rng.Intn(tot)
		var pick string
		for _, n := range names {
			w := weights[n]
			if w == 0 {
				w = 1
			}
			if x < w {
				pick = n
				break
			}
			x -= w
		}
		cand := by[pick]
		cur = cand[rng.Intn(len(cand))]
		p = append(p, cur)
	}
	return p
}

func (g *graph) stepsOf(p []int32) []Step {
	out := make([]Step, len(p))
	for i, n := range p {
		out[i] = g.steps[n]
	}
	return out
}
