// Package c15 binds spec/KVStore.tla to the real upsidedown KV store adapters
// (boltdb, goleveldb, gtreap, moss, metrics wrapper).
package c15

import (
	"encoding/binary"
	"fmt"
	"os"
	"path/filepath"
	"sync"

	"github.com/blevesearch/bleve/v2/index/upsidedown"
	_ "github.com/blevesearch/bleve/v2/index/upsidedown/store/boltdb"
	_ "github.com/blevesearch/bleve/v2/index/upsidedown/store/goleveldb"
	_ "github.com/blevesearch/bleve/v2/index/upsidedown/store/gtreap"
	_ "github.com/blevesearch/bleve/v2/index/upsidedown/store/metrics"
	_ "github.com/blevesearch/bleve/v2/index/upsidedown/store/moss"
	"github.com/blevesearch/bleve/v2/registry"
	store "github.com/blevesearch/upsidedown_store_api"
)

// The merge operator of upsidedown is unexported; it is captured the way the
// real index hands it to a store: through a registered constructor.
var (
	moOnce   sync.Once
	mergeOp  store.MergeOperator
	moErr    error
	captName = "verif-c15-capture"
)

func mergeOperator() (store.MergeOperator, error) {
	moOnce.Do(func() {
		err := registry.RegisterKVStore(captName, func(mo store.MergeOperator, config map[string]interface{}) (store.KVStore, error) {
			mergeOp = mo
			return registry.KVStoreConstructorByName("gtreap")(mo, map[string]interface{}{"path": ""})
		})
		if err != nil {
			moErr = err
			return
		}
		idx, err := upsidedown.NewUpsideDownCouch(captName, map[string]interface{}{}, nil)
		if err != nil {
			moErr = err
			return
		}
		if err := idx.Open(); err != nil {
			moErr = err
			return
		}
		_ = idx.Close()
		if mergeOp == nil {
			moErr = fmt.Errorf("merge operator not captured")
		}
	})
	return mergeOp, moErr
}

// variant is one way of obtaining a KVStore through the registry.
type variant struct {
	Name string // signature component
	Disk bool
	Open func(dir string) (store.KVStore, error)
}

func construct(name string, cfg map[string]interface{}) (store.KVStore, error) {
	mo, err := mergeOperator()
	if err != nil {
		return nil, err
	}
	ctor := registry.KVStoreConstructorByName(name)
	if ctor == nil {
		return nil, fmt.Errorf("no KV store constructor %q", name)
	}
	return ctor(mo, cfg)
}

func variants(thorough bool) []variant {
	vs := []variant{
		{Name: "boltdb", Disk: true, Open: func(dir string) (store.KVStore, error) {
			// a generous initial mmap: a write that had to re-mmap would wait for open read
			// transactions (bbolt), which a single-goroutine replay would never close
			return construct("boltdb", map[string]interface{}{"path": filepath.Join(dir, "store.bolt"), "nosync": true, "initialMmapSize": 8 << 20})
		}},
		{Name: "goleveldb", Disk: true, Open: func(dir string) (store.KVStore, error) {
			return construct("goleveldb", map[string]interface{}{"path": filepath.Join(dir, "ldb"), "create_if_missing": true})
		}},
		{Name: "gtreap", Open: func(dir string) (store.KVStore, error) {
			return construct("gtreap", map[string]interface{}{"path": ""})
		}},
		{Name: "moss", Open: func(dir string) (store.KVStore, error) {
			return construct("moss", map[string]interface{}{})
		}},
		{Name: "metrics/gtreap", Open: func(dir string) (store.KVStore, error) {
			return construct("metrics", map[string]interface{}{"kvStoreName_actual": "gtreap", "path": ""})
		}},
	}
	// moss over a lower-level store that takes the persisted data in chunks of two operations
	vs = append(vs, variant{Name: "moss+goleveldb/chunk2", Disk: true, Open: func(dir string) (store.KVStore, error) {
		return construct("moss", map[string]interface{}{"mossLowerLevelStoreName": "goleveldb", "mossLowerLevelMaxBatchSize": 2.0,
			"mossLowerLevelStoreConfig": map[string]interface{}{"path": filepath.Join(dir, "ldb"), "create_if_missing": true}})
	}})
	if thorough {
		vs = append(vs,
			variant{Name: "metrics/boltdb", Disk: true, Open: func(dir string) (store.KVStore, error) {
				return construct("metrics", map[string]interface{}{"kvStoreName_actual": "boltdb", "path": filepath.Join(dir, "store.bolt"), "nosync": true, "initialMmapSize": 8 << 20})
			}},
			variant{Name: "metrics/moss", Open: func(dir string) (store.KVStore, error) {
				return construct("metrics", map[string]interface{}{"kvStoreName_actual": "moss"})
			}},
			variant{Name: "moss+mossStore", Disk: true, Open: func(dir string) (store.KVStore, error) {
				return construct("moss", map[string]interface{}{"mossLowerLevelStoreName": "mossStore", "path": filepath.Join(dir, "moss")})
			}},
			variant{Name: "moss+goleveldb", Disk: true, Open: func(dir string) (store.KVStore, error) {
				return construct("moss", map[string]interface{}{"mossLowerLevelStoreName": "goleveldb",
					"mossLowerLevelStoreConfig": map[string]interface{}{"path": filepath.Join(dir, "ldb"), "create_if_missing": true}})
			}},
		)
	}
	return vs
}

// embedding maps a model key (ints over the small alphabet) to a real key.
// The upsidedown merge operator parses keys as dictionary rows
// ('d' + uint16 field + term) and slices key[1:3], so merged keys need >= 3
// bytes: the model key is appended to a fixed 3-byte prefix. "ff" makes the
// whole key space sit under an all-0xff prefix (no successor: the prefix
// upper-bound overflow case); "raw" uses the model bytes as they are
// (only for configs without merges and without the empty key).
type embedding struct {
	Name   string
	Prefix []byte
}

var (
	embDict = embedding{"dict", []byte{'d', 0, 0}}
	embFF   = embedding{"ff", []byte{0xff, 0xff, 0xff}}
	embRaw  = embedding{"raw", nil}
)

func (e embedding) key(k []int) []byte {
	out := make([]byte, 0, len(e.Prefix)+len(k))
	out = append(out, e.Prefix...)
	for _, b := range k {
		out = append(out, byte(b))
	}
	return out
}

// bound maps an iterator bound; an empty bound under the raw embedding is nil.
func (e embedding) bound(k []int) []byte {
	b := e.key(k)
	if len(b) == 0 {
		return nil
	}
	return b
}

func (e embedding) unkey(b []byte) ([]int, bool) {
	if len(b) < len(e.Prefix) || string(b[:len(e.Prefix)]) != string(e.Prefix) {
		out := make([]int, len(b))
		for i, x := range b {
			out[i] = int(x)
		}
		return out, false
	}
	out := make([]int, 0, len(b)-len(e.Prefix))
	for _, x := range b[len(e.Prefix):] {
		out = append(out, int(x))
	}
	return out, true
}

func operand(d int) []byte {
	b := make([]byte, 8)
	binary.LittleEndian.PutUint64(b, uint64(int64(d)))
	return b
}

// operandFor: upsidedown hands the operand as the first 8 bytes of a
// DictionaryRowMaxValueSize (10 byte) slice when it uses NewBatchEx.
func operandFor(d int, ex bool) []byte {
	if !ex {
		return operand(d)
	}
	b := make([]byte, 10)
	binary.LittleEndian.PutUint64(b, uint64(int64(d)))
	return b
}

func valBytes(v []int) []byte {
	out := make([]byte, len(v))
	for i, x := range v {
		out[i] = byte(x)
	}
	return out
}

func intsOf(b []byte) []int {
	out := make([]int, len(b))
	for i, x := range b {
		out[i] = int(x)
	}
	return out
}

func isNone(v []int) bool { return len(v) == 1 && v[0] == -1 }

var none = []int{-1}

func mkdir(base string, n int) string {
	d := filepath.Join(base, fmt.Sprintf("s%07d", n))
	_ = os.MkdirAll(d, 0o755)
	return d
}
