package c19

import (
	"fmt"
	"math/rand"
	"strings"

	"verif/harness/internal/core"
	"verif/harness/internal/tlaval"
	"verif/harness/internal/tlc"
)

// Byte classes of spec/TokenStream.tla and their concretisations. The first
// entry is the canonical one (used for the TLC-enumerated inputs); the others
// are used by the seeded long/mixed inputs.
var classBytes = map[byte][][]byte{
	'L': {[]byte("a"), []byte("B"), []byte("z"), []byte("s")},
	'D': {[]byte("1"), []byte("0"), []byte("9")},
	'S': {[]byte(" "), []byte("\t"), []byte("\n")},
	'P': {[]byte("."), []byte("'"), []byte("-"), []byte("<"), []byte("&"), []byte("/"), []byte("@"), []byte("_"), []byte(">"), []byte("\"")},
	'U': {[]byte("\xc3\xa9"), []byte("\xc3\x9f"), []byte("\xd0\xb6"), []byte("\xd8\xa7")}, // é ß ж ا
	'C': {{0xa9}, {0x80}, {0xbf}},
	'F': {{0xff}, {0xfe}, {0xf8}},
	'H': {{0xc3}, {0xe4}, {0xf0}},                         // a lead byte without continuation
	'T': {{0xe4, 0xb8}, {0xf0, 0x9f}, {0xe2, 0x80}},       // a multi-byte character cut short
	'J': {[]byte("\xe4\xb8\xad"), []byte("\xe3\x81\x82"), []byte("\xef\xbd\xb1"), []byte("\xed\x95\x9c")}, // 中 あ ｱ 한
	'M': {[]byte("\xcc\x81"), []byte("\xcc\x88"), []byte("\xd9\x8e"), []byte("\xef\xbe\x9e"), []byte("\xef\xbe\x9f")},                                     // combining acute, diaeresis, arabic fatha
	'Z': {[]byte("\xe2\x80\x8c"), []byte("\xe2\x80\x8d"), []byte("\xe2\x80\x8b")},                         // ZWNJ, ZWJ, ZWSP
}

const classOrder = "LDSPUJMZCFHT" // "simplest first": used to canonicalise a failing input

type input struct {
	Class string // class string, e.g. "LUC"
	Bytes []byte
	Seed  int64 // != 0: a seeded long/mixed input (Bytes not derivable from Class alone)
}

func concretise(class string) []byte {
	var out []byte
	for i := 0; i < len(class); i++ {
		out = append(out, classBytes[class[i]][0]...)
	}
	return out
}

// concretiseFor highlight documents: punctuation is a character that html escaping rewrites
func concretiseHL(class string) []byte {
	var out []byte
	p := 0
	for i := 0; i < len(class); i++ {
		if class[i] == 'P' {
			out = append(out, []byte{'&', '<', '\'', '.'}[p%4])
			p++
			continue
		}
		out = append(out, classBytes[class[i]][0]...)
	}
	return out
}

// generatedInputs lets TLC enumerate every class string of length <= n
// (spec/TokenStream.tla, GenSpec) and reads the states back.
func generatedInputs(c *core.Ctx, n int) ([]input, error) {
	cfgName := fmt.Sprintf("TokenStream_gen%d.cfg", n)
	var out []input
	seen := map[string]bool{}
	res, err := tlc.DumpStates(c.TLCOpts("TokenStream", cfgName, core.Workers(2)), func(st tlaval.State) error {
		var sb strings.Builder
		for _, x := range tlaval.List(st["inp"]) {
			sb.WriteString(tlaval.Str(x))
		}
		cl := sb.String()
		b := concretise(cl)
		if got := tlaval.Int(st["len"]); got != len(b) {
			return fmt.Errorf("spec ByteLen(%s)=%d but the concretisation has %d bytes", cl, got, len(b))
		}
		if !seen[cl] {
			seen[cl] = true
			out = append(out, input{Class: cl, Bytes: b})
		}
		return nil
	})
	c.Account("TokenStream", cfgName, "exhaustive+dump", res)
	if err != nil {
		return nil, err
	}
	if res == nil || !res.OK {
		return nil, fmt.Errorf("TLC input generation %s failed", cfgName)
	}
	want := 0
	p := 1
	for i := 0; i <= n; i++ {
		want += p
		p *= len(classOrder)
	}
	if len(out) != want {
		return nil, fmt.Errorf("TLC generated %d inputs, expected %d", len(out), want)
	}
	return out, nil
}

// altInputs: every class string of length <= 2 with EVERY alternative byte sequence
// of its classes (the TLC enumeration concretises each class by its first
// alternative only): short tokens that start or end with an unusual character,
// e.g. a halfwidth voiced sound mark with nothing before it.
func altInputs() []input {
	var out []input
	for i := 0; i < len(classOrder); i++ {
		a := classOrder[i]
		for _, ab := range classBytes[a] {
			out = append(out, input{Class: string([]byte{a}), Bytes: append([]byte{}, ab...), Seed: -1})
			for j := 0; j < len(classOrder); j++ {
				b := classOrder[j]
				for _, bb := range classBytes[b] {
					out = append(out, input{Class: string([]byte{a, b}), Bytes: append(append([]byte{}, ab...), bb...), Seed: -1})
				}
			}
		}
	}
	return out
}

// seededInputs: long and mixed inputs (very long tokens, many tokens, mixed scripts, invalid bytes
// inside words), beyond what the enumeration reaches. The class string is kept as the label.
func seededInputs(seed int64, n int) []input {
	rng := rand.New(rand.NewSource(seed))
	var out []input
	mk := func(cl []byte) input {
		var b []byte
		for _, c := range cl {
			alts := classBytes[c]
			b = append(b, alts[rng.Intn(len(alts))]...)
		}
		return input{Class: string(cl), Bytes: b, Seed: seed}
	}
	for i := 0; i < n; i++ {
		var cl []byte
		switch i % 6 {
		case 0: // one very long token of one class, a foreign class in the middle
			c := classOrder[rng.Intn(len(classOrder))]
			k := 50 + rng.Intn(400)
			for j := 0; j < k; j++ {
				cl = append(cl, c)
			}
			cl[rng.Intn(len(cl))] = classOrder[rng.Intn(len(classOrder))]
		case 1: // many short words
			k := 20 + rng.Intn(100)
			for j := 0; j < k; j++ {
				w := 1 + rng.Intn(4)
				for x := 0; x < w; x++ {
					cl = append(cl, "LLLDUJ"[rng.Intn(6)])
				}
				cl = append(cl, "SSSP"[rng.Intn(4)])
			}
		case 2: // uniform over all classes
			k := 6 + rng.Intn(60)
			for j := 0; j < k; j++ {
				cl = append(cl, classOrder[rng.Intn(len(classOrder))])
			}
		case 3: // words with apostrophes / camelCase / paths (elision, possessive, camelCase, hierarchy)
			k := 3 + rng.Intn(12)
			for j := 0; j < k; j++ {
				cl = append(cl, 'L')
				if rng.Intn(2) == 0 {
					cl = append(cl, 'P')
				}
				cl = append(cl, 'L', 'L')
				if rng.Intn(3) == 0 {
					cl = append(cl, 'D')
				}
				if rng.Intn(3) == 0 {
					cl = append(cl, 'S')
				}
			}
		case 4: // invalid bytes at the edges and between multi-byte characters
			cl = append(cl, "CFHT"[rng.Intn(4)])
			k := 2 + rng.Intn(10)
			for j := 0; j < k; j++ {
				cl = append(cl, "UJMZL"[rng.Intn(5)], "CFHTUJ"[rng.Intn(6)])
			}
			cl = append(cl, "CFHT"[rng.Intn(4)])
		case 5: // CJK / combining runs
			k := 4 + rng.Intn(40)
			for j := 0; j < k; j++ {
				cl = append(cl, "JJJMZUS"[rng.Intn(7)])
			}
		}
		out = append(out, mk(cl))
	}
	return out
}
