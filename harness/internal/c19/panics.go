package c19

import (
	"encoding/hex"
	"fmt"
	"runtime/debug"
	"sort"
	"strings"
	"sync"
	"sync/atomic"
	"time"

	"github.com/blevesearch/bleve/v2/analysis"
)

// failure: a component panicked or did not terminate on an input.
type failure struct {
	Comp  *component
	In    input
	Kind  string // panic | hang
	Msg   string
	Label string // canonical minimal input (class string, or hex bytes)
	Culprit string // function that panicked
	Also  []string // other components failing in the same function
}

// culpritOf names the function that panicked: the first frame below the panic that belongs to
// bleve or one of its blevesearch dependencies (e.g. "analysis/token/reverse.reverse").
func culpritOf(stack string) string {
	lines := strings.Split(stack, "\n")
	past := false
	for _, ln := range lines {
		if strings.HasPrefix(ln, "panic(") || strings.HasPrefix(ln, "runtime.gopanic") {
			past = true
			continue
		}
		if !past || strings.HasPrefix(ln, "\t") {
			continue
		}
		if i := strings.Index(ln, "github.com/blevesearch/"); i == 0 {
			fn := ln
			if j := strings.LastIndex(fn, "("); j > 0 {
				fn = fn[:j]
			}
			fn = strings.TrimPrefix(fn, "github.com/blevesearch/")
			fn = strings.TrimPrefix(fn, "bleve/v2/")
			return fn
		}
	}
	return "unknown"
}

var lastCulprit sync.Map // goroutine-free side channel: normMsg -> culprit of the latest panic with that message

func callGuarded(comp *component, in []byte) (ts analysis.TokenStream, msg string) {
	defer func() {
		if r := recover(); r != nil {
			msg = fmt.Sprint(r)
			if msg == "" {
				msg = "panic"
			}
			lastCulprit.Store(comp.ID()+"|"+normMsg(msg), culpritOf(string(debug.Stack())))
		}
	}()
	// components may modify the slice they are given: hand out a copy
	cp := append(make([]byte, 0, len(in)), in...)
	return comp.run(cp), ""
}

// callTimed runs one call under a watchdog; hung=true when it did not return in time.
func callTimed(comp *component, in []byte, d time.Duration) (msg string, hung bool) {
	done := make(chan string, 1)
	go func() {
		_, m := callGuarded(comp, in)
		done <- m
	}()
	select {
	case m := <-done:
		return m, false
	case <-time.After(d):
		return "", true
	}
}

func normMsg(m string) string {
	// strip the numbers out of runtime error texts so that one defect gives one class
	var sb strings.Builder
	for _, r := range m {
		if r >= '0' && r <= '9' {
			continue
		}
		sb.WriteRune(r)
	}
	s := sb.String()
	if len(s) > 70 {
		s = s[:70]
	}
	return s
}

type sweepResult struct {
	failures []*failure
	calls    int64
}

// sweep runs every component on every input under recover() and a watchdog.
func sweep(comps []*component, inputs []input, par int, hangAfter time.Duration, skip func(*component, *input) bool, onTokens func(*component, *input, analysis.TokenStream)) *sweepResult {
	res := &sweepResult{}
	var mu sync.Mutex
	var wg sync.WaitGroup
	ch := make(chan *component, len(comps))
	for _, c := range comps {
		ch <- c
	}
	close(ch)
	for w := 0; w < par; w++ {
		wg.Add(1)
		go func() {
			defer wg.Done()
			for comp := range ch {
				start := 0
				for start < len(inputs) {
					var cur int64 = int64(start)
					var stamp int64 = time.Now().UnixNano()
					done := make(chan struct{})
					seen := map[string]bool{}
					var local []*failure
					go func(from int) {
						defer close(done)
						for i := from; i < len(inputs); i++ {
							if skip != nil && skip(comp, &inputs[i]) {
								continue
							}
							atomic.StoreInt64(&cur, int64(i))
							atomic.StoreInt64(&stamp, time.Now().UnixNano())
							ts, msg := callGuarded(comp, inputs[i].Bytes)
							atomic.AddInt64(&res.calls, 1)
							if msg != "" {
								k := normMsg(msg)
								if !seen[k] {
									seen[k] = true
									cu := "unknown"
									if v, ok := lastCulprit.Load(comp.ID() + "|" + k); ok {
										cu = v.(string)
									}
									local = append(local, &failure{Comp: comp, In: inputs[i], Kind: "panic", Msg: msg, Culprit: cu})
								}
								continue
							}
							if onTokens != nil {
								onTokens(comp, &inputs[i], ts)
							}
						}
					}(start)
					hung := false
				WAIT:
					for {
						select {
						case <-done:
							break WAIT
						case <-time.After(2 * time.Second):
							if time.Since(time.Unix(0, atomic.LoadInt64(&stamp))) > hangAfter {
								hung = true
								break WAIT
							}
						}
					}
					if !hung {
						mu.Lock()
						res.failures = append(res.failures, local...)
						mu.Unlock()
						break
					}
					i := int(atomic.LoadInt64(&cur))
					mu.Lock()
					res.failures = append(res.failures, &failure{Comp: comp, In: inputs[i], Kind: "hang", Msg: fmt.Sprintf("no return after %s", hangAfter)})
					mu.Unlock()
					start = i + 1 // the stuck goroutine is abandoned; go on behind the input
				}
			}
		}()
	}
	wg.Wait()
	return res
}

// shrink reduces a failing input to a canonical minimal class string: drop
// classes while the component still fails, then replace every class by the
// simplest class that still fails. Seeded inputs whose failure depends on the
// particular bytes are shrunk on bytes and labelled in hex.
func shrink(comp *component, in input, fails func([]byte) bool) (label string, minimal []byte) {
	cl := in.Class
	if !fails(concretise(cl)) || len(cl) > 600 {
		b := append([]byte{}, in.Bytes...)
		if !fails(b) {
			return "", nil
		}
		if len(b) == 0 {
			return "(empty)", b
		}
		for changed := true; changed; {
			changed = false
			for chunk := len(b) / 2; chunk >= 1; chunk /= 2 {
				for i := 0; i+chunk <= len(b); {
					c := append(append([]byte{}, b[:i]...), b[i+chunk:]...)
					if fails(c) {
						b = c
						changed = true
					} else {
						i += chunk
					}
				}
			}
		}
		if len(b) == 0 {
			return "(empty)", b
		}
		return "hex:" + hex.EncodeToString(b), b
	}
	for changed := true; changed; {
		changed = false
		for chunk := (len(cl) + 1) / 2; chunk >= 1; chunk /= 2 {
			for i := 0; i+chunk <= len(cl); {
				c := cl[:i] + cl[i+chunk:]
				if fails(concretise(c)) {
					cl = c
					changed = true
				} else {
					i += chunk
				}
			}
		}
	}
	b := []byte(cl)
	for i := range b {
		for k := 0; k < len(classOrder); k++ {
			if classOrder[k] == b[i] {
				break
			}
			old := b[i]
			b[i] = classOrder[k]
			if fails(concretise(string(b))) {
				break
			}
			b[i] = old
		}
	}
	if len(b) == 0 {
		return "(empty)", []byte{}
	}
	return string(b), concretise(string(b))
}

var kindRank = map[string]int{"tokenizer": 0, "charfilter": 1, "tokenfilter": 2, "analyzer": 3, "chain": 4}

// confirm groups the panics by the function that panicked (one defect shows up in every analyzer
// and chain that contains the component), picks the simplest component exhibiting it, shrinks its
// input to a canonical minimal one and re-executes it; returns the failures that reproduce.
func confirm(fs []*failure) (confirmed []*failure, unreproduced []*failure) {
	sort.SliceStable(fs, func(i, j int) bool {
		a, b := fs[i], fs[j]
		if kindRank[a.Comp.Kind] != kindRank[b.Comp.Kind] {
			return kindRank[a.Comp.Kind] < kindRank[b.Comp.Kind]
		}
		if a.Comp.ID() != b.Comp.ID() {
			return a.Comp.ID() < b.Comp.ID()
		}
		return len(a.In.Bytes) < len(b.In.Bytes)
	})
	byCulprit := map[string]*failure{}
	var order []string
	for _, f := range fs {
		if f.Kind == "hang" {
			_, hung := callTimed(f.Comp, f.In.Bytes, 240*time.Second)
			if !hung {
				unreproduced = append(unreproduced, f)
				continue
			}
			f.Label = f.In.Class
			if len(f.Label) > 12 {
				f.Label = fmt.Sprintf("long(%d classes)", len(f.In.Class))
			}
			f.Culprit = f.Comp.ID()
			k := "hang|" + f.Comp.ID()
			if _, ok := byCulprit[k]; !ok {
				byCulprit[k] = f
				order = append(order, k)
			}
			continue
		}
		k := "panic|" + f.Culprit + "|" + normMsg(f.Msg)
		if first, ok := byCulprit[k]; ok {
			if first.Comp.ID() != f.Comp.ID() && len(first.Also) < 200 {
				first.Also = append(first.Also, f.Comp.ID())
			}
			continue
		}
		want := normMsg(f.Msg)
		fails := func(b []byte) bool {
			m, hung := callTimed(f.Comp, b, 30*time.Second)
			return !hung && m != "" && normMsg(m) == want
		}
		label, minimal := shrink(f.Comp, f.In, fails)
		if label == "" {
			unreproduced = append(unreproduced, f)
			continue
		}
		f.Label = label
		f.In = input{Class: label, Bytes: minimal}
		byCulprit[k] = f
		order = append(order, k)
	}
	for _, k := range order {
		confirmed = append(confirmed, byCulprit[k])
	}
	return
}
