// Package c19 binds the monitor specifications spec/TokenStream.tla and
// spec/Highlight.tla to bleve's registered analysis components and
// highlighters.
package c19

import (
	"fmt"
	"sort"

	"github.com/blevesearch/bleve/v2/analysis"
	_ "github.com/blevesearch/bleve/v2/analysis/token/hierarchy"
	_ "github.com/blevesearch/bleve/v2/analysis/token/porter"
	_ "github.com/blevesearch/bleve/v2/analysis/token/snowball"
	_ "github.com/blevesearch/bleve/v2/analysis/tokenizer/letter"
	_ "github.com/blevesearch/bleve/v2/config" // registers every analysis component bleve ships
	"github.com/blevesearch/bleve/v2/registry"
)

// component is one thing to run on an input.
type component struct {
	Kind string // analyzer | tokenizer | tokenfilter | charfilter | chain
	Name string // registry name (or name of the config variant)
	run  func(in []byte) analysis.TokenStream
	tok  analysis.Tokenizer // set for tokenizers: their streams are judged
}

func (c *component) ID() string { return c.Kind + ":" + c.Name }

type inventory struct {
	comps    []*component
	skipped  []string // could not be constructed (name: reason)
	counts   map[string]int
	cache    *registry.Cache
	baseToks map[string]analysis.Tokenizer
}

type cfg = map[string]interface{}

// variants: minimal valid configs for the component TYPES (those the registry cannot build from an empty config)
var tokenizerVariants = map[string][]cfg{
	"regexp": {
		{"regexp": `\w+`}, {"regexp": `.`}, {"regexp": `(?s).`}, {"regexp": `[^\s]+`}, {"regexp": `a*`}, {"regexp": `\pL+`}, {"regexp": `[\x80-\xff]+|a`},
	},
	"exception": {
		{"exceptions": []interface{}{`a\.a`, `1+`}, "tokenizer": "unicode"},
		{"exceptions": []interface{}{`[a1]\.`, "é"}, "tokenizer": "whitespace"},
		{"exceptions": []interface{}{`.`}, "tokenizer": "letter"},
		{"exceptions": []interface{}{`\s+`, `a*`}, "tokenizer": "single"},
	},
}

var tokenFilterVariants = map[string][]cfg{
	"dict_compound": {
		{"dict_token_map": "verif_words"},
		{"dict_token_map": "verif_words", "min_word_size": 1.0, "min_subword_size": 1.0, "max_subword_size": 2.0, "only_longest_match": true},
		{"dict_token_map": "verif_words", "min_word_size": 0.0, "min_subword_size": 0.0, "max_subword_size": 50.0},
	},
	"edge_ngram": {
		{"min": 1.0, "max": 1.0}, {"min": 1.0, "max": 3.0}, {"min": 2.0, "max": 4.0, "back": true}, {"min": 1.0, "max": 2.0, "back": true}, {"min": 3.0, "max": 2.0},
	},
	"elision":        {{"articles_token_map": "articles_fr"}, {"articles_token_map": "verif_words"}},
	"hierarchy":      {{"delimiter": "/"}, {"delimiter": ".", "max": 2.0, "split_input": false}, {"delimiter": " ", "max": 1.0}, {"delimiter": "", "split_input": true}, {"delimiter": "a"}},
	"keyword_marker": {{"keywords_token_map": "verif_words"}},
	"length":         {{"min": 2.0}, {"max": 1.0}, {"min": 1.0, "max": 3.0}},
	"ngram":          {{"min": 1.0, "max": 1.0}, {"min": 1.0, "max": 3.0}, {"min": 2.0, "max": 2.0}, {"min": 3.0, "max": 5.0}, {"min": 2.0, "max": 1.0}},
	"normalize_unicode": {{"form": "nfc"}, {"form": "nfd"}, {"form": "nfkc"}, {"form": "nfkd"}},
	"shingle": {
		{"min": 2.0, "max": 2.0}, {"min": 2.0, "max": 3.0, "output_original": true}, {"min": 1.0, "max": 2.0, "separator": "", "filler": ""},
		{"min": 2.0, "max": 4.0, "output_original": true, "separator": "é", "filler": "\xff"},
	},
	"stemmer_snowball": {{"language": "english"}, {"language": "french"}, {"language": "german"}, {"language": "russian"}, {"language": "turkish"}, {"language": "arabic"}, {"language": "hungarian"}, {"language": "finnish"}},
	"stop_tokens":      {{"stop_token_map": "verif_words"}, {"stop_token_map": "stop_en"}},
	"truncate_token":   {{"length": 1.0}, {"length": 3.0}, {"length": 0.0}},
}

var charFilterVariants = map[string][]cfg{
	"regexp": {
		{"regexp": `[a-z]`, "replace": ""}, {"regexp": `a`, "replace": "aaaa"}, {"regexp": `.`, "replace": "é"}, {"regexp": `\s+`}, {"regexp": `a*`, "replace": "-"}, {"regexp": `(a)(1)`, "replace": "$2$1"},
	},
}

// analyzers of type "custom": chains that put structural token filters behind each other and
// behind length-changing char filters (what a user mapping may configure)
func customChains(filters []string) []cfg {
	out := []cfg{
		{"tokenizer": "unicode", "char_filters": []interface{}{"html"}, "token_filters": []interface{}{"to_lower", "verif_ngram_1"}},
		{"tokenizer": "whitespace", "char_filters": []interface{}{"asciifolding"}, "token_filters": []interface{}{"verif_edge_ngram_1", "unique"}},
		{"tokenizer": "unicode", "char_filters": []interface{}{"zero_width_spaces"}, "token_filters": []interface{}{"verif_shingle_1", "verif_length_2"}},
		{"tokenizer": "letter", "char_filters": []interface{}{"verif_cf_regexp_1"}, "token_filters": []interface{}{"camelCase", "reverse"}},
		{"tokenizer": "unicode", "token_filters": []interface{}{"cjk_width", "cjk_bigram"}},
		{"tokenizer": "web", "token_filters": []interface{}{"elision_fr", "stop_fr", "stemmer_fr_light"}},
		{"tokenizer": "single", "token_filters": []interface{}{"verif_hierarchy_0"}},
		{"tokenizer": "verif_tok_regexp_1", "char_filters": []interface{}{"html", "asciifolding", "zero_width_spaces"}, "token_filters": []interface{}{"apostrophe", "possessive_en"}},
	}
	for _, a := range filters {
		for _, b := range filters {
			out = append(out, cfg{"tokenizer": "unicode", "token_filters": []interface{}{a, b}})
		}
	}
	return out
}

func buildInventory() (*inventory, error) {
	inv := &inventory{cache: registry.NewCache(), counts: map[string]int{}, baseToks: map[string]analysis.Tokenizer{}}
	cache := inv.cache
	if _, err := cache.DefineTokenMap("verif_words", cfg{"type": "custom", "tokens": []interface{}{"a", "aa", "1", "a1", "é", "l", "d", "中", ""}}); err != nil {
		return nil, fmt.Errorf("token map: %v", err)
	}
	add := func(c *component) {
		inv.comps = append(inv.comps, c)
		inv.counts[c.Kind]++
	}
	skip := func(kind, name string, err error) {
		inv.skipped = append(inv.skipped, fmt.Sprintf("%s:%s: %v", kind, name, err))
	}
	// --- tokenizers
	tt, ti := registry.TokenizerTypesAndInstances()
	sort.Strings(tt)
	sort.Strings(ti)
	tokNames := []string{}
	for _, n := range ti {
		t, err := cache.TokenizerNamed(n)
		if err != nil {
			skip("tokenizer", n, err)
			continue
		}
		tokNames = append(tokNames, n)
		inv.baseToks[n] = t
	}
	for _, typ := range tt {
		vs, ok := tokenizerVariants[typ]
		if !ok {
			skip("tokenizer", typ, fmt.Errorf("type needs a config the harness does not know"))
			continue
		}
		for i, v := range vs {
			name := fmt.Sprintf("verif_tok_%s_%d", typ, i)
			c := cfg{"type": typ}
			for k, x := range v {
				c[k] = x
			}
			t, err := cache.DefineTokenizer(name, c)
			if err != nil {
				skip("tokenizer", name, err)
				continue
			}
			tokNames = append(tokNames, name)
			inv.baseToks[name] = t
		}
	}
	for _, n := range tokNames {
		t := inv.baseToks[n]
		add(&component{Kind: "tokenizer", Name: n, tok: t, run: func(in []byte) analysis.TokenStream { return t.Tokenize(in) }})
	}
	// --- char filters
	ct, ci := registry.CharFilterTypesAndInstances()
	sort.Strings(ct)
	sort.Strings(ci)
	for _, n := range ci {
		f, err := cache.CharFilterNamed(n)
		if err != nil {
			skip("charfilter", n, err)
			continue
		}
		add(&component{Kind: "charfilter", Name: n, run: func(in []byte) analysis.TokenStream { f.Filter(in); return nil }})
	}
	for _, typ := range ct {
		vs, ok := charFilterVariants[typ]
		if !ok {
			skip("charfilter", typ, fmt.Errorf("type needs a config the harness does not know"))
			continue
		}
		for i, v := range vs {
			name := fmt.Sprintf("verif_cf_%s_%d", typ, i)
			c := cfg{"type": typ}
			for k, x := range v {
				c[k] = x
			}
			f, err := cache.DefineCharFilter(name, c)
			if err != nil {
				skip("charfilter", name, err)
				continue
			}
			add(&component{Kind: "charfilter", Name: name, run: func(in []byte) analysis.TokenStream { f.Filter(in); return nil }})
		}
	}
	// --- token filters, each behind several base tokenizers (whole input as one token, words,
	//     unicode segments, every rune its own token)
	bases := []string{"single", "whitespace", "unicode", "verif_tok_regexp_2"}
	ft, fi := registry.TokenFilterTypesAndInstances()
	sort.Strings(ft)
	sort.Strings(fi)
	var filterNames []string
	filters := map[string]analysis.TokenFilter{}
	for _, n := range fi {
		f, err := cache.TokenFilterNamed(n)
		if err != nil {
			skip("tokenfilter", n, err)
			continue
		}
		filterNames = append(filterNames, n)
		filters[n] = f
	}
	for _, typ := range ft {
		vs, ok := tokenFilterVariants[typ]
		if !ok {
			skip("tokenfilter", typ, fmt.Errorf("type needs a config the harness does not know"))
			continue
		}
		for i, v := range vs {
			name := fmt.Sprintf("verif_%s_%d", typ, i)
			c := cfg{"type": typ}
			for k, x := range v {
				c[k] = x
			}
			f, err := cache.DefineTokenFilter(name, c)
			if err != nil {
				skip("tokenfilter", name, err)
				continue
			}
			filterNames = append(filterNames, name)
			filters[name] = f
		}
	}
	for _, n := range filterNames {
		f := filters[n]
		var bs []analysis.Tokenizer
		for _, b := range bases {
			if t, ok := inv.baseToks[b]; ok {
				bs = append(bs, t)
			}
		}
		add(&component{Kind: "tokenfilter", Name: n, run: func(in []byte) analysis.TokenStream {
			var last analysis.TokenStream
			for _, b := range bs {
				last = f.Filter(b.Tokenize(in))
			}
			f.Filter(analysis.TokenStream{}) // the empty stream (what an empty input gives)
			return last
		}})
	}
	// --- analyzers
	at, ai := registry.AnalyzerTypesAndInstances()
	sort.Strings(at)
	sort.Strings(ai)
	for _, n := range ai {
		a, err := cache.AnalyzerNamed(n)
		if err != nil {
			skip("analyzer", n, err)
			continue
		}
		add(&component{Kind: "analyzer", Name: n, run: func(in []byte) analysis.TokenStream { return a.Analyze(in) }})
	}
	for _, typ := range at {
		if typ != "custom" {
			skip("analyzer", typ, fmt.Errorf("type needs a config the harness does not know"))
			continue
		}
		structural := []string{}
		for _, n := range []string{"verif_ngram_1", "verif_ngram_3", "verif_edge_ngram_1", "verif_edge_ngram_2", "verif_shingle_1", "verif_shingle_2", "camelCase", "verif_dict_compound_1",
			"verif_truncate_token_0", "verif_length_2", "reverse", "unique", "cjk_bigram", "cjk_width", "verif_hierarchy_1", "elision_fr", "apostrophe", "verif_normalize_unicode_1", "verif_stop_tokens_0"} {
			if _, ok := filters[n]; ok {
				structural = append(structural, n)
			}
		}
		for i, v := range customChains(structural) {
			name := fmt.Sprintf("verif_custom_%d", i)
			c := cfg{"type": "custom"}
			for k, x := range v {
				c[k] = x
			}
			a, err := cache.DefineAnalyzer(name, c)
			if err != nil {
				skip("analyzer", name, err)
				continue
			}
			desc := fmt.Sprintf("custom[%v|%v|%v]", v["char_filters"], v["tokenizer"], v["token_filters"])
			add(&component{Kind: "chain", Name: desc, run: func(in []byte) analysis.TokenStream { return a.Analyze(in) }})
		}
	}
	return inv, nil
}
