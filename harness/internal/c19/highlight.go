package c19

import (
	"fmt"
	"math/rand"
	"sort"
	"strings"
	"sync"
	"time"

	"github.com/blevesearch/bleve/v2"
	"github.com/blevesearch/bleve/v2/analysis"
	"github.com/blevesearch/bleve/v2/document"
	"github.com/blevesearch/bleve/v2/index/scorch"
	"github.com/blevesearch/bleve/v2/mapping"
	"github.com/blevesearch/bleve/v2/search"
	"github.com/blevesearch/bleve/v2/search/query"
)

// A field per analyzer. Judged fields: the analyzer has no char filter (the
// token offsets refer to the stored text) and emits non-overlapping tokens, so
// the Highlight contract applies literally. The other fields are searched and
// highlighted as well, but only "does not panic" is demanded of them.
type hlField struct {
	Name     string
	Analyzer string
	Judged   bool
}

func hlMapping() (*mapping.IndexMappingImpl, []hlField, error) {
	m := bleve.NewIndexMapping()
	must := func(err error) {
		if err != nil {
			panic(err)
		}
	}
	var ferr error
	func() {
		defer func() {
			if r := recover(); r != nil {
				ferr = fmt.Errorf("mapping: %v", r)
			}
		}()
		must(m.AddCustomCharFilter("hl_cf_expand", cfg{"type": "regexp", "regexp": "a", "replace": "aaaa"}))
		must(m.AddCustomCharFilter("hl_cf_shrink", cfg{"type": "regexp", "regexp": "[a1]+", "replace": ""}))
		must(m.AddCustomTokenFilter("hl_ngram", cfg{"type": "ngram", "min": 1.0, "max": 2.0}))
		must(m.AddCustomTokenFilter("hl_edge", cfg{"type": "edge_ngram", "min": 1.0, "max": 3.0}))
		must(m.AddCustomTokenFilter("hl_shingle", cfg{"type": "shingle", "min": 2.0, "max": 2.0, "output_original": true}))
		must(m.AddCustomAnalyzer("hl_ws_lower", cfg{"type": "custom", "tokenizer": "whitespace", "token_filters": []interface{}{"to_lower"}}))
		must(m.AddCustomAnalyzer("hl_letter", cfg{"type": "custom", "tokenizer": "letter"}))
		must(m.AddCustomAnalyzer("hl_unicode_stem", cfg{"type": "custom", "tokenizer": "unicode", "token_filters": []interface{}{"to_lower", "stemmer_porter"}}))
		must(m.AddCustomAnalyzer("hl_fold", cfg{"type": "custom", "tokenizer": "unicode", "char_filters": []interface{}{"asciifolding"}}))
		must(m.AddCustomAnalyzer("hl_zw", cfg{"type": "custom", "tokenizer": "unicode", "char_filters": []interface{}{"zero_width_spaces"}}))
		must(m.AddCustomAnalyzer("hl_html", cfg{"type": "custom", "tokenizer": "unicode", "char_filters": []interface{}{"html"}}))
		must(m.AddCustomAnalyzer("hl_expand", cfg{"type": "custom", "tokenizer": "unicode", "char_filters": []interface{}{"hl_cf_expand"}}))
		must(m.AddCustomAnalyzer("hl_shrink", cfg{"type": "custom", "tokenizer": "whitespace", "char_filters": []interface{}{"hl_cf_shrink"}}))
		must(m.AddCustomAnalyzer("hl_ngram_a", cfg{"type": "custom", "tokenizer": "unicode", "token_filters": []interface{}{"hl_ngram"}}))
		must(m.AddCustomAnalyzer("hl_edge_a", cfg{"type": "custom", "tokenizer": "whitespace", "token_filters": []interface{}{"hl_edge"}}))
		must(m.AddCustomAnalyzer("hl_shingle_a", cfg{"type": "custom", "tokenizer": "unicode", "token_filters": []interface{}{"hl_shingle"}}))
		must(m.AddCustomAnalyzer("hl_camel", cfg{"type": "custom", "tokenizer": "whitespace", "token_filters": []interface{}{"camelCase"}}))
	}()
	if ferr != nil {
		return nil, nil, ferr
	}
	fields := []hlField{
		{"f_standard", "standard", true}, {"f_simple", "simple", true}, {"f_keyword", "keyword", true}, {"f_en", "en", true},
		{"f_web", "web", true}, {"f_ws_lower", "hl_ws_lower", true}, {"f_letter", "hl_letter", true}, {"f_unicode_stem", "hl_unicode_stem", true},
		{"f_fold", "hl_fold", false}, {"f_zw", "hl_zw", false}, {"f_html", "hl_html", false}, {"f_expand", "hl_expand", false}, {"f_shrink", "hl_shrink", false},
		{"f_ngram", "hl_ngram_a", false}, {"f_edge", "hl_edge_a", false}, {"f_shingle", "hl_shingle_a", false}, {"f_camel", "hl_camel", false}, {"f_cjk", "cjk", false},
	}
	dm := bleve.NewDocumentStaticMapping()
	for _, f := range fields {
		fm := bleve.NewTextFieldMapping()
		fm.Analyzer = f.Analyzer
		fm.Store = true
		fm.IncludeTermVectors = true
		fm.IncludeInAll = false
		dm.AddFieldMappingsAt(f.Name, fm)
	}
	m.DefaultMapping = dm
	if err := m.Validate(); err != nil {
		return nil, nil, err
	}
	return m, fields, nil
}

type hlStyle struct {
	Name string
	Fmt  string
	Size int
}

// defineStyles registers simple highlighters with fragment sizes 1..20 for both formatters
// (the registered "html" and "ansi" highlighters use size 200).
func defineStyles(sizes []int) ([]hlStyle, error) {
	styles := []hlStyle{{"html", "html", 200}, {"ansi", "ansi", 200}}
	for _, n := range sizes {
		fr := fmt.Sprintf("verif_frag_%d", n)
		if _, err := bleve.Config.Cache.FragmenterNamed(fr); err != nil {
			if _, err := bleve.Config.Cache.DefineFragmenter(fr, cfg{"type": "simple", "size": float64(n)}); err != nil {
				return nil, err
			}
		}
		for _, f := range []string{"html", "ansi"} {
			name := fmt.Sprintf("verif_%s_%d", f, n)
			if _, err := bleve.Config.Cache.HighlighterNamed(name); err != nil {
				if _, err := bleve.Config.Cache.DefineHighlighter(name, cfg{"type": "simple", "fragmenter": fr, "formatter": f}); err != nil {
					return nil, err
				}
			}
			styles = append(styles, hlStyle{name, f, n})
		}
	}
	return styles, nil
}

type fragRecord struct {
	Fmt   string  `json:"fmt"`
	Value []int   `json:"value"`
	Frag  []int   `json:"frag"`
	Locs  [][]int `json:"locs"`
	// the stored values of the field, one per array element (a plain field: one),
	// and the hit's term locations per element; the judge accepts a fragment
	// that is a piece of ONE element marked at THAT element's locations
	Values [][]int   `json:"values"`
	ALocs  [][][]int `json:"alocs"`
	// not judged, for reports
	Field string `json:"field"`
	Style string `json:"style"`
	Doc   string `json:"doc"`
	Query string `json:"query"`
}

func bytesToInts(b []byte) []int {
	out := make([]int, len(b))
	for i, x := range b {
		out[i] = int(x)
	}
	return out
}

type hlResult struct {
	records   []*fragRecord // judged fields only, deduplicated
	searches  int
	hits      int
	fragments int
	failures  []*hlFailure
	indexType string
}

type hlFailure struct {
	Kind  string // panic | hang | error
	Field string
	Style string
	Query string
	Msg   string
	Docs  []string
}

// highlightRun indexes one document per input (every field holds the same
// text) and runs match / phrase / prefix / term searches with highlighting.
func highlightRun(indexType string, docs []input, styles []hlStyle, seed int64, maxSearches int, budget time.Duration) (*hlResult, error) {
	res := &hlResult{indexType: indexType}
	m, fields, err := hlMapping()
	if err != nil {
		return nil, err
	}
	var idx bleve.Index
	if indexType == "scorch" {
		idx, err = bleve.NewUsing("", m, scorch.Name, scorch.Name, nil)
	} else {
		idx, err = bleve.NewMemOnly(m)
	}
	if err != nil {
		return nil, err
	}
	defer idx.Close()
	values := map[string][][]byte{}
	guard := func(what string, f func()) (msg string) {
		defer func() {
			if r := recover(); r != nil {
				msg = fmt.Sprint(r)
			}
		}()
		f()
		return ""
	}
	analyzers := map[string]analysis.Analyzer{}
	for _, f := range fields {
		a := m.AnalyzerNamed(f.Analyzer)
		if a == nil {
			return nil, fmt.Errorf("analyzer %s of field %s not found", f.Analyzer, f.Name)
		}
		analyzers[f.Name] = a
	}
	seenAnalyze := map[string]bool{}
	// index in batches; a panic while indexing (analysis) is attributed to the batch's documents one by one
	for i := 0; i < len(docs); i += 200 {
		j := i + 200
		if j > len(docs) {
			j = len(docs)
		}
		b := idx.NewBatch()
		for k := i; k < j; k++ {
			id := fmt.Sprintf("d%05d", k)
			v := docs[k].Bytes
			// every fourth document holds an ARRAY of short values in each field (its own
			// value and those of its two predecessors): fragments of one element must be
			// marked with the locations of that element only
			elems := [][]byte{v}
			if k%4 == 3 && len(v) <= 40 && len(docs[k-1].Bytes) <= 40 && len(docs[k-2].Bytes) <= 40 {
				elems = [][]byte{docs[k-1].Bytes, v, docs[k-2].Bytes}
			}
			values[id] = elems
			data := map[string]interface{}{}
			for _, f := range fields {
				// indexing analyses in worker goroutines where a panic cannot be recovered: analyse
				// here first, and leave the field out (recording the failure) if its analyzer panics
				a := analyzers[f.Name]
				if msg := guard("Analyze", func() { a.Analyze(append([]byte{}, v...)) }); msg != "" {
					key := f.Name + "|" + normMsg(msg)
					if !seenAnalyze[key] {
						seenAnalyze[key] = true
						res.failures = append(res.failures, &hlFailure{Kind: "panic", Field: f.Name, Style: "index", Query: "analyze", Msg: msg, Docs: []string{docs[k].Class}})
					}
					continue
				}
				if len(elems) > 1 {
					bad := false
					for _, e := range elems {
						if guard("Analyze", func() { a.Analyze(append([]byte{}, e...)) }) != "" {
							bad = true
						}
					}
					if bad {
						continue
					}
					arr := make([]interface{}, len(elems))
					for i, e := range elems {
						arr[i] = string(e)
					}
					data[f.Name] = arr
					continue
				}
				data[f.Name] = string(v)
			}
			if msg := guard("batch.Index", func() {
				if err := b.Index(id, data); err != nil {
					panic("error: " + err.Error())
				}
			}); msg != "" {
				res.failures = append(res.failures, &hlFailure{Kind: "panic", Field: "*", Style: "index", Query: "index", Msg: msg, Docs: []string{docs[k].Class}})
			}
		}
		if msg := guard("Batch", func() {
			if err := idx.Batch(b); err != nil {
				panic("error: " + err.Error())
			}
		}); msg != "" {
			res.failures = append(res.failures, &hlFailure{Kind: "panic", Field: "*", Style: "index", Query: "batch", Msg: msg})
		}
	}
	rng := rand.New(rand.NewSource(seed))
	seenRec := map[string]bool{}
	deadline := time.Now().Add(budget)
	type q struct {
		name string
		q    query.Query
	}
	var jobs []hlJob
	for _, f := range fields {
		// terms of the field, from the index dictionary
		var terms []string
		if fd, err := idx.FieldDict(f.Name); err == nil {
			for {
				e, err := fd.Next()
				if err != nil || e == nil {
					break
				}
				terms = append(terms, e.Term)
			}
			_ = fd.Close()
		}
		sort.Strings(terms)
		rng.Shuffle(len(terms), func(i, j int) { terms[i], terms[j] = terms[j], terms[i] })
		var qs []q
		nTerms := 6
		for _, t := range terms {
			if nTerms == 0 {
				break
			}
			nTerms--
			tq := bleve.NewTermQuery(t)
			tq.SetField(f.Name)
			qs = append(qs, q{"term:" + fmt.Sprintf("%q", t), tq})
			mq := bleve.NewMatchQuery(t)
			mq.SetField(f.Name)
			qs = append(qs, q{"match:" + fmt.Sprintf("%q", t), mq})
			if len(t) > 0 {
				p := t[:1]
				for k := 1; k < len(t) && k < 4 && (t[k]&0xC0) == 0x80; k++ {
					p = t[:k+1]
				}
				pq := bleve.NewPrefixQuery(p)
				pq.SetField(f.Name)
				qs = append(qs, q{"prefix:" + fmt.Sprintf("%q", p), pq})
			}
		}
		// phrases: the whole text of a few documents (match_phrase analyses it with the field's analyzer)
		for k := 0; k < 4 && len(docs) > 0; k++ {
			d := docs[rng.Intn(len(docs))]
			if len(d.Bytes) == 0 || len(d.Bytes) > 60 {
				continue
			}
			pq := bleve.NewMatchPhraseQuery(string(d.Bytes))
			pq.SetField(f.Name)
			qs = append(qs, q{"phrase:" + d.Class, pq})
		}
		for _, qq := range qs {
			// every query with a few styles (all styles are used across the run)
			for k := 0; k < 3; k++ {
				if len(jobs) >= maxSearches {
					break
				}
				jobs = append(jobs, hlJob{f, qq.name, qq.q, styles[rng.Intn(len(styles))]})
			}
		}
	}
	// the searches run concurrently (highlighters and formatters are shared, cached
	// objects: a fragment must not contain text of another search's document)
	var mu sync.Mutex
	var wg sync.WaitGroup
	jobCh := make(chan hlJob, len(jobs))
	for _, j := range jobs {
		jobCh <- j
	}
	close(jobCh)
	hung := false
	for w := 0; w < 6; w++ {
		wg.Add(1)
		go func() {
			defer wg.Done()
			for job := range jobCh {
				f, qq, st := job.f, job, job.st
				mu.Lock()
				stop := hung || time.Now().After(deadline)
				mu.Unlock()
				if stop {
					return
				}
				{
					req := bleve.NewSearchRequestOptions(qq.q, 150, 0, false)
					req.Highlight = bleve.NewHighlightWithStyle(st.Name)
					req.Highlight.AddField(f.Name)
					req.IncludeLocations = true
					var sr *bleve.SearchResult
					done := make(chan string, 1)
					go func() {
						done <- guard("Search", func() {
							var err error
							sr, err = idx.Search(req)
							if err != nil {
								panic("error: " + err.Error())
							}
						})
					}()
					var msg string
					select {
					case msg = <-done:
					case <-time.After(60 * time.Second):
						mu.Lock()
						res.failures = append(res.failures, &hlFailure{Kind: "hang", Field: f.Name, Style: st.Name, Query: qq.name, Msg: "search with highlighting did not return in 60s"})
						hung = true
						mu.Unlock()
						return
					}
					mu.Lock()
					res.searches++
					if msg != "" {
						kind := "panic"
						if strings.HasPrefix(msg, "error: ") {
							kind = "error"
						}
						res.failures = append(res.failures, &hlFailure{Kind: kind, Field: f.Name, Style: st.Name, Query: qq.name, Msg: msg})
						mu.Unlock()
						continue
					}
					for _, hit := range sr.Hits {
						res.hits++
						frs := hit.Fragments[f.Name]
						res.fragments += len(frs)
						if !f.Judged {
							continue
						}
						elems := values[hit.ID]
						alocs := make([][][]int, len(elems))
						for i := range alocs {
							alocs[i] = [][]int{}
						}
						for _, ls := range hit.Locations[f.Name] {
							for _, l := range ls {
								e := 0
								if len(l.ArrayPositions) > 0 {
									e = int(l.ArrayPositions[0])
								}
								if e < len(alocs) {
									alocs[e] = append(alocs[e], []int{int(l.Start), int(l.End)})
								}
							}
						}
						for _, locs := range alocs {
							sort.Slice(locs, func(i, j int) bool {
								if locs[i][0] != locs[j][0] {
									return locs[i][0] < locs[j][0]
								}
								return locs[i][1] < locs[j][1]
							})
						}
						vals := make([][]int, len(elems))
						for i, e := range elems {
							vals[i] = bytesToInts(e)
						}
						for _, fr := range frs {
							rec := &fragRecord{Fmt: st.Fmt, Value: vals[0], Frag: bytesToInts([]byte(fr)), Locs: alocs[0], Values: vals, ALocs: alocs,
								Field: f.Name, Style: st.Name, Doc: hit.ID, Query: qq.name}
							key := fmt.Sprint(rec.Fmt, rec.Values, rec.Frag, rec.ALocs)
							if !seenRec[key] {
								seenRec[key] = true
								res.records = append(res.records, rec)
							}
						}
					}
					mu.Unlock()
				}
			}
		}()
	}
	wg.Wait()
	return res, nil
}

type hlJob struct {
	f    hlField
	name string
	q    query.Query
	st   hlStyle
}

// directHighlight calls the highlighters with arbitrary in-range term
// locations (overlapping, out of order, empty, in the middle of a character):
// "highlighting never panics for any stored value and any term locations".
func directHighlight(values []input, styles []hlStyle, seed int64, n int) (calls int, fails []*hlFailure) {
	rng := rand.New(rand.NewSource(seed))
	for it := 0; it < n; it++ {
		v := values[rng.Intn(len(values))]
		st := styles[rng.Intn(len(styles))]
		h, err := bleve.Config.Cache.HighlighterNamed(st.Name)
		if err != nil {
			continue
		}
		nl := rng.Intn(4)
		tlm := search.TermLocationMap{}
		var desc []string
		for k := 0; k < nl; k++ {
			s := rng.Intn(len(v.Bytes) + 1)
			e := s + rng.Intn(len(v.Bytes)-s+1)
			term := fmt.Sprintf("t%d", rng.Intn(2))
			tlm[term] = append(tlm[term], &search.Location{Pos: uint64(k + 1), Start: uint64(s), End: uint64(e)})
			desc = append(desc, fmt.Sprintf("[%d,%d)", s, e))
		}
		dm := &search.DocumentMatch{ID: "x", Locations: search.FieldTermLocationMap{"f": tlm}}
		doc := document.NewDocument("x")
		doc.AddField(document.NewTextField("f", nil, v.Bytes))
		msg := func() (m string) {
			defer func() {
				if r := recover(); r != nil {
					m = fmt.Sprint(r)
				}
			}()
			h.BestFragmentsInField(dm, doc, "f", 1+rng.Intn(3))
			return ""
		}()
		calls++
		if msg != "" {
			fails = append(fails, &hlFailure{Kind: "panic", Field: "direct", Style: st.Name, Query: strings.Join(desc, " "), Msg: msg, Docs: []string{v.Class}})
		}
	}
	return
}
