// Package c01: "Index contents equal the last-write-wins replay of the
// operation history" — spec/Index.tla model-checked by TLC (batching algebra,
// last-write-wins), TLC behaviours (exhaustive dump of the quick config's
// action sequences + simulation) replayed into every index configuration,
// the real index's projection compared with the spec state after EVERY
// action (Engine A).
package c01

import (
	"encoding/json"
	"fmt"
	"github.com/blevesearch/bleve/v2/index/scorch"
	"math/rand"
	"os"
	"sort"
	"sync"
	"time"
	"verif/harness/internal/sx"

	bleve "github.com/blevesearch/bleve/v2"

	"verif/harness/internal/bx"
	"verif/harness/internal/core"
	"verif/harness/internal/tlaval"
	"verif/harness/internal/tlc"
)

func init() {
	core.Register(&core.Check{Prop: "C01", Level: "model_checking", Run: run, Replay: replay})
}

// Step is one action of a behaviour with the spec state after it.
type Step struct {
	Name     string         `json:"name"` // single | begin | add | exec | layout
	Op       string         `json:"op,omitempty"`
	K        string         `json:"k,omitempty"`
	V        int            `json:"v,omitempty"`
	Docs     map[string]int `json:"docs"`
	Internal map[string]int `json:"internal"`
}

func stepsOf(b tlc.Behaviour) []Step {
	var out []Step
	for _, st := range b {
		a := st["act"]
		name := tlaval.Str(tlaval.Field(a, "name"))
		if name == "init" {
			continue
		}
		call := tlaval.Field(a, "call")
		s := Step{Name: name, Op: tlaval.Str(tlaval.Field(call, "op")), K: tlaval.Str(tlaval.Field(call, "k")),
			V: tlaval.Int(tlaval.Field(call, "v")), Docs: map[string]int{}, Internal: map[string]int{}}
		for k, v := range tlaval.Map(st["docs"]) {
			s.Docs[k] = tlaval.Int(v)
		}
		for k, v := range tlaval.Map(st["internal"]) {
			s.Internal[k] = tlaval.Int(v)
		}
		out = append(out, s)
	}
	return out
}

func keysOf(m map[string]int) []string {
	var out []string
	for k := range m {
		out = append(out, k)
	}
	sort.Strings(out)
	return out
}

type failure struct {
	Config string `json:"config"`
	StepNo int    `json:"step"`
	What   string `json:"what"`
	Steps  []Step `json:"steps"`
	API    bool   `json:"api_error"`
}

// replayOne executes one behaviour on one configuration. Returns nil or the
// first divergence between the real index and the spec state.
// rowRecords collects, for upsidedown configurations, the KV rows after every
// action (judged by spec/trace/JudgeUpsidedown.tla at the end of the run).
var (
	rowMu      sync.Mutex
	rowRecords []any
	rowOwner   []string
)

func replayOne(c *core.Ctx, cfg bx.Config, steps []Step) (*failure, error) {
	dir := c.TempDir("c01")
	defer os.RemoveAll(dir)
	idx, err := cfg.New(dir, bleve.NewIndexMapping())
	if err != nil {
		return nil, fmt.Errorf("%s: create: %v", cfg.Name, err)
	}
	defer func() {
		if idx != nil {
			_ = idx.Close()
		}
	}()
	var batch *bleve.Batch
	var ids, keys []string
	if len(steps) > 0 {
		ids, keys = keysOf(steps[0].Docs), keysOf(steps[0].Internal)
	}
	fail := func(i int, what string, api bool) *failure {
		return &failure{Config: cfg.Name, StepNo: i, What: what, Steps: steps[:i+1], API: api}
	}
	for i, s := range steps {
		switch s.Name {
		case "single":
			switch s.Op {
			case "index":
				err = idx.Index(s.K, bx.DocFor(s.V))
			case "delete":
				err = idx.Delete(s.K)
			case "setint":
				err = idx.SetInternal([]byte(s.K), bx.IntVal(s.V))
			case "delint":
				err = idx.DeleteInternal([]byte(s.K))
			}
		case "begin":
			batch = idx.NewBatch()
		case "add":
			switch s.Op {
			case "index":
				err = batch.Index(s.K, bx.DocFor(s.V))
			case "delete":
				batch.Delete(s.K)
			case "setint":
				batch.SetInternal([]byte(s.K), bx.IntVal(s.V))
			case "delint":
				batch.DeleteInternal([]byte(s.K))
			}
		case "exec":
			err = idx.Batch(batch)
			batch = nil
		case "layout":
			switch s.Op {
			case "reopen":
				if cfg.Disk {
					// unsafe_batch: a clean Close does not flush batches that were
					// never persisted (documented trade-off of that mode), so the
					// reopened content is only defined once persistence caught up.
					if sc := bx.AsScorch(idx); sc != nil {
						if !bx.WaitPersisted(sc, 30*time.Second) {
							return nil, fmt.Errorf("%s: persist wait timed out", cfg.Name)
						}
					}
					if err = idx.Close(); err == nil {
						var nidx bleve.Index
						nidx, err = cfg.Reopen(dir)
						if err != nil {
							idx = nil
							err = fmt.Errorf("reopen: %v", err)
						} else {
							idx = nidx
						}
					}
				}
			case "merge":
				if sc := bx.AsScorch(idx); sc != nil && cfg.Disk {
					if !bx.WaitPersisted(sc, 30*time.Second) {
						return nil, fmt.Errorf("%s: persist wait timed out", cfg.Name)
					}
					err = bx.ForceMerge(sc)
				}
			case "persist":
				if sc := bx.AsScorch(idx); sc != nil && cfg.Disk {
					if !bx.WaitPersisted(sc, 30*time.Second) {
						return nil, fmt.Errorf("%s: persist wait timed out", cfg.Name)
					}
				}
			}
		}
		if err != nil {
			return fail(i, fmt.Sprintf("%s %s(%s) returned error: %v", s.Name, s.Op, s.K, err), true), nil
		}
		if s.Name == "begin" || s.Name == "add" {
			// building a batch must not change the index
		}
		got, err := bx.Observe(idx, ids, keys)
		if err != nil {
			return fail(i, "observation failed: "+err.Error(), true), nil
		}
		if d := bx.Diff(bx.Expected(s.Docs, s.Internal), got); d != "" {
			return fail(i, d, false), nil
		}
		if !cfg.Scorch && (s.Name == "single" || s.Name == "exec") {
			rows, err := bx.UpsidedownRows(idx)
			if err != nil {
				return fail(i, "row dump failed: "+err.Error(), true), nil
			}
			if rows != nil {
				live := [][]any{}
				for _, id := range ids {
					if v := s.Docs[id]; v != 0 {
						live = append(live, []any{id, fmt.Sprintf("v%d", v)})
					}
				}
				rows["live"] = live
				rowMu.Lock()
				if len(rowRecords) < 6000 {
					rowRecords = append(rowRecords, rows)
					rowOwner = append(rowOwner, fmt.Sprintf("%s after %v", cfg.Name, actionsOnly(steps[:i+1])))
				}
				rowMu.Unlock()
			}
		}
	}
	return nil, nil
}

func configs(c *core.Ctx) []bx.Config {
	if c.Quick() {
		return []bx.Config{bx.ScorchDisk, bx.ScorchDiskUnsafe, bx.ScorchMem, bx.UpsideGtreap, bx.UpsideBolt, bx.UpsideLevelDB, bx.UpsideMoss}
	}
	return []bx.Config{bx.ScorchDisk, bx.ScorchDiskUnsafe, bx.ScorchWorkers3, bx.ScorchMem, bx.ScorchZap15, bx.ScorchZap16,
		bx.UpsideGtreap, bx.UpsideBolt, bx.UpsideLevelDB, bx.UpsideMoss}
}

func run(c *core.Ctx) error {
	c.SetRule("cases = TLC behaviours of spec/Index.tla (single calls, batches built call by call incl. empty and same-id-twice batches, layout no-ops); " +
		"one evaluation = one behaviour replayed on one index configuration with the projection (DocCount, Document of every id, match_all, doc-id query, GetInternal of every key) compared with the spec state after every action; " +
		"distinct_nontrivial = distinct (behaviour action sequence) that contain at least one re-index or delete of a live id or a batch with two ops on one id")
	c.Assume("documents carry (version) in stored fields; stored-field comparison is by name and string value")
	c.Assume("layout no-ops are executed only where the configuration supports them (reopen: disk configs; merge/persist: disk scorch)")

	// 1. the model decides
	mcfg := "Index_mc_quick.cfg"
	if c.Thorough() {
		mcfg = "Index_mc_thorough.cfg"
	}
	if _, ok := c.ModelCheck("Index", mcfg, core.Workers(8), core.Timeout(20*time.Minute)); !ok {
		return nil
	}

	// 2. behaviours: exhaustive short ones (simulate cannot enumerate; use the
	// dump of a tiny config and rebuild paths) + simulated long ones.
	var behs [][]Step
	num, depth := c.Pick(60, 1500), c.Pick(30, 45)
	sims, err := c.Simulate("Index", "Index_sim.cfg", num, depth, c.Seed, core.Timeout(10*time.Minute))
	if err != nil {
		return err
	}
	for _, b := range sims {
		behs = append(behs, stepsOf(b))
	}
	short, err := c.Simulate("Index", "Index_sim_short.cfg", c.Pick(150, 3000), 8, c.Seed+1000, core.Timeout(10*time.Minute))
	if err != nil {
		return err
	}
	for _, b := range short {
		behs = append(behs, stepsOf(b))
	}
	c.Logf("%d behaviours to replay", len(behs))

	cfgs := configs(c)
	type job struct {
		bi  int
		cfg bx.Config
	}
	jobs := make(chan job, 64)
	var wg sync.WaitGroup
	var mu sync.Mutex
	var firstErr error
	for w := 0; w < 14; w++ {
		wg.Add(1)
		go func() {
			defer wg.Done()
			for j := range jobs {
				f, err := replayOne(c, j.cfg, behs[j.bi])
				c.Eval(1)
				mu.Lock()
				if err != nil && firstErr == nil {
					firstErr = err
				}
				mu.Unlock()
				if f != nil {
					report(c, f)
				}
			}
		}()
	}
	for bi, steps := range behs {
		if nontrivial(steps) {
			c.Distinct(core.Canon(actionsOnly(steps)))
		}
		if bi < 2 {
			c.Sample(map[string]any{"behaviour": actionsOnly(steps), "final_docs": steps[len(steps)-1].Docs})
		}
		for _, cfg := range cfgs {
			jobs <- job{bi, cfg}
		}
	}
	close(jobs)
	wg.Wait()
	c.Traces(len(behs))
	// Phase 1b: two writers on the same ids at the same time (each op a single call or a
	// one-element batch): the final state is judged by trace/JudgeFinal.tla
	if err := concurrentWriters(c, cfgs); err != nil && firstErr == nil {
		firstErr = err
	}
	// Phase 2, one replay at a time: the persister is held back at the top of its loop until
	// a few more batches were introduced (or 40 ms passed), so that with unsafe batches it
	// takes snapshots holding several in-memory segments with deletions - the in-memory merge
	// of several workers (ScorchDisk: PMMWrite) runs on every history, not by luck
	{
		rec := sx.NewRecorder("")
		rec.Gate = func(point string, hit int, s *scorch.Scorch) {
			if point == "persist.loop" {
				rec.WaitEvent("IntroSegment", 5, 150*time.Millisecond)
			}
		}
		rec.Install()
		n := 0
		for bi, steps := range behs {
			if n >= c.Pick(40, 200) {
				break
			}
			writes := 0
			for _, s := range steps {
				if s.Name == "single" || s.Name == "exec" {
					writes++
				}
			}
			if writes < 4 {
				continue
			}
			n++
			f, err := replayOne(c, bx.ScorchWorkers3, behs[bi])
			c.Eval(1)
			if err != nil && firstErr == nil {
				firstErr = err
			}
			if f != nil {
				f.Config += " (persister held back)"
				report(c, f)
			}
		}
		scorch.VerifHook = nil
		c.Extra("replays_with_the_persister_held_back", n)
		c.Extra("in_memory_merges_during_those_replays", rec.Count("MemMergeIntroduced"))
	}
	// row level of upsidedown (Upsidedown.tla): dictionary counts, back index
	// rows, cached count, no stale rows of older versions
	if _, ok := c.ModelCheck("Upsidedown", "Upsidedown_mc.cfg", core.Workers(4), core.Timeout(10*time.Minute)); ok && len(rowRecords) > 0 {
		bad, err := c.JudgeRecords("JudgeUpsidedown", "JudgeUpsidedown.cfg", rowRecords, 5, core.Timeout(15*time.Minute), core.Heap(6000))
		if err != nil {
			return err
		}
		c.Extra("upsidedown_row_dumps_judged", len(rowRecords))
		for i, inv := range bad {
			c.Violation("c01/upsidedown-rows/"+inv, fmt.Sprintf("%s violated by the KV rows of %s", inv, rowOwner[i]), map[string]any{"where": rowOwner[i], "rows": rowRecords[i]})
		}
	}
	c.Extra("configurations", func() []string {
		var n []string
		for _, x := range cfgs {
			n = append(n, x.Name)
		}
		return n
	}())
	c.SetExhaustive(false)
	return firstErr
}

func actionsOnly(steps []Step) []string {
	var out []string
	for _, s := range steps {
		out = append(out, fmt.Sprintf("%s:%s:%s", s.Name, s.Op, s.K))
	}
	return out
}

func nontrivial(steps []Step) bool {
	live := map[string]bool{}
	inBatch := map[string]bool{}
	for i, s := range steps {
		switch s.Name {
		case "single":
			if (s.Op == "index" || s.Op == "delete") && live[s.K] {
				return true
			}
		case "begin":
			inBatch = map[string]bool{}
		case "add":
			if inBatch[s.Op[:1]+s.K] || (s.Op == "index" || s.Op == "delete") && (live[s.K] || inBatch["i"+s.K] || inBatch["d"+s.K]) {
				return true
			}
			inBatch[s.Op[:1]+s.K] = true
		}
		if i >= 0 {
			for id, v := range s.Docs {
				live[id] = v != 0
			}
		}
	}
	return false
}

func report(c *core.Ctx, f *failure) {
	kind := "state"
	if f.API {
		kind = "api-error"
	}
	last := f.Steps[len(f.Steps)-1]
	sig := fmt.Sprintf("c01/%s/%s/%s:%s", f.Config, kind, last.Name, last.Op)
	c.Violation(sig, fmt.Sprintf("[%s] after %d actions (%s %s %s): %s", f.Config, f.StepNo+1, last.Name, last.Op, last.K, f.What), f)
}

func replay(c *core.Ctx, path string) error {
	b, err := os.ReadFile(path)
	if err != nil {
		return err
	}
	var art struct {
		Replay failure `json:"replay"`
	}
	if err := json.Unmarshal(b, &art); err != nil {
		return err
	}
	for _, cfg := range append(configs(c), bx.ScorchZap15, bx.ScorchZap16, bx.ScorchWorkers3) {
		if cfg.Name == art.Replay.Config {
			f, err := replayOne(c, cfg, art.Replay.Steps)
			c.Eval(1)
			c.Distinct("replay-a")
			c.Distinct("replay-b")
			c.Sample(actionsOnly(art.Replay.Steps))
			if err != nil {
				return err
			}
			if f != nil {
				report(c, f)
			} else {
				c.Logf("replay did not reproduce")
			}
			return nil
		}
	}
	return fmt.Errorf("unknown configuration %q", art.Replay.Config)
}

// concurrentWriters: two goroutines write versions of the same three ids (writer 1 odd
// versions, writer 2 even ones), through Index / Delete and through one-element batches.
func concurrentWriters(c *core.Ctx, cfgs []bx.Config) error {
	ids := []string{"a", "b", "c"}
	var recs []any
	var names []string
	for _, cfg := range cfgs {
		for round := 0; round < c.Pick(3, 12); round++ {
			dir := c.TempDir("c01w")
			idx, err := cfg.New(dir, bleve.NewIndexMapping())
			if err != nil {
				return fmt.Errorf("%s: create: %v", cfg.Name, err)
			}
			written := [][]any{}
			lastOp := map[string][2]string{} // id -> last op of writer 1, writer 2
			var mu sync.Mutex
			var wg sync.WaitGroup
			var werr error
			for w := 1; w <= 2; w++ {
				wg.Add(1)
				go func(w int) {
					defer wg.Done()
					rng := rand.New(rand.NewSource(c.Seed*100 + int64(round*2+w)))
					for k := 0; k < 12; k++ {
						id := ids[rng.Intn(len(ids))]
						ver := 2*(k+1) - (w % 2) // writer 1: odd, writer 2: even
						del := rng.Intn(4) == 0
						var err error
						switch {
						case del && rng.Intn(2) == 0:
							err = idx.Delete(id)
						case del:
							b := idx.NewBatch()
							b.Delete(id)
							err = idx.Batch(b)
						case rng.Intn(2) == 0:
							err = idx.Index(id, bx.DocFor(ver))
						default:
							b := idx.NewBatch()
							if err = b.Index(id, bx.DocFor(ver)); err == nil {
								err = idx.Batch(b)
							}
						}
						mu.Lock()
						if err != nil && werr == nil {
							werr = err
						}
						lo := lastOp[id]
						if del {
							lo[w-1] = "del"
						} else {
							lo[w-1] = "put"
							written = append(written, []any{id, ver})
						}
						lastOp[id] = lo
						mu.Unlock()
					}
				}(w)
			}
			wg.Wait()
			if werr != nil {
				_ = idx.Close()
				os.RemoveAll(dir)
				return fmt.Errorf("%s: concurrent write failed: %v", cfg.Name, werr)
			}
			obs, err := bx.Observe(idx, ids, nil)
			_ = idx.Close()
			os.RemoveAll(dir)
			if err != nil {
				c.Violation("c01/concurrent-writers/observe:"+cfg.Name, fmt.Sprintf("%s: observation after two concurrent writers failed: %v", cfg.Name, err), map[string]any{"config": cfg.Name})
				continue
			}
			live := [][]any{}
			for id, fs := range obs.Docs {
				ver := 0
				fmt.Sscanf(fs["v"], "v%d", &ver)
				if fmt.Sprint(bx.FieldsFor(ver)) != fmt.Sprint(fs) {
					ver = 0 // the stored fields are not those of one version
				}
				live = append(live, []any{id, ver})
			}
			lastdel := []any{}
			for id, lo := range lastOp {
				if (lo[0] == "del" || lo[0] == "") && (lo[1] == "del" || lo[1] == "") && (lo[0] == "del" || lo[1] == "del") {
					lastdel = append(lastdel, id)
				}
			}
			ma := []any{}
			for _, id := range obs.MatchAll {
				ma = append(ma, id)
			}
			recs = append(recs, map[string]any{"count": int(obs.Count), "matchall": ma, "live": live, "written": written, "lastdel": lastdel})
			names = append(names, cfg.Name)
			c.Eval(1)
		}
	}
	bad, err := c.JudgeRecords("JudgeFinal", "JudgeFinal.cfg", recs, 5, core.Timeout(5*time.Minute))
	if err != nil {
		return err
	}
	for i, inv := range bad {
		c.Violation("c01/concurrent-writers/"+inv+":"+names[i], fmt.Sprintf("%s violated on %s after two writers wrote the same ids concurrently: %v", inv, names[i], recs[i]), map[string]any{"config": names[i], "record": recs[i]})
	}
	c.Extra("concurrent_writer_rounds", len(recs))
	return nil
}
