// Package sxdev: development helper — runs one workload and prints the recorded events.
package sxdev

import (
	"encoding/json"
	"fmt"
	"math/rand"
	"os"
	"path/filepath"
	"time"

	"verif/harness/internal/core"
	"verif/harness/internal/sx"
)

func init() {
	core.RegisterChild("dumptrace", func(args []string) int {
		dir, _ := os.MkdirTemp("/dev/shm", "sxdev-")
		defer os.RemoveAll(dir)
		rng := rand.New(rand.NewSource(1))
		wl := sx.RandomWorkload(rng, 8, 2, false, nil)
		r, err := sx.Start(filepath.Join(dir, "idx"), wl, 1, 0.3)
		if err != nil {
			fmt.Println(err)
			return 1
		}
		r.SetHolds(sx.DefaultHolds)
		r.Think = 2 * time.Millisecond
		go func() { time.Sleep(8 * time.Millisecond); r.ForceMerge() }()
		r.RunWriters()
		r.Settle(20 * time.Second)
		r.Close()
		for _, ev := range r.Rec.Events() {
			b, _ := json.Marshal(ev)
			fmt.Println(string(b))
		}
		return 0
	})
}

func init() {
	core.Register(&core.Check{Prop: "SXDEV", Level: "model_checking", Run: func(c *core.Ctx) error {
		scheds, err := sx.SimulatedSchedules(c, 3, 60, c.Seed, false)
		if err != nil {
			return err
		}
		for i, sch := range scheds {
			dir := filepath.Join(c.TempDir("sxdev"), "idx")
			t0 := time.Now()
			r, s, err := sx.RunSchedule(dir, sch, 1, nil)
			if err != nil {
				return err
			}
			r.Settle(20 * time.Second)
			r.Close()
			fmt.Printf("schedule %d: %d steps in %v\n", i, len(sch.Steps), time.Since(t0))
			for j, st := range sch.Steps {
				fmt.Printf("  %2d %-3s %-12s %s\n", j, st.Proc, st.Action, s.Taken[j])
			}
		}
		c.Eval(1)
		c.Distinct("a")
		c.Distinct("b")
		c.Sample("dev")
		return nil
	}})
}
