// Package sxdev: development helper — runs one workload and prints the recorded events.
package sxdev

import (
	"encoding/json"
	"fmt"
	"math/rand"
	"os"
	"path/filepath"
	"time"

	"verif/harness/internal/core"
	"verif/harness/internal/sx"
)

func init() {
	core.RegisterChild("dumptrace", func(args []string) int {
		dir, _ := os.MkdirTemp("/dev/shm", "sxdev-")
		defer os.RemoveAll(dir)
		rng := rand.New(rand.NewSource(1))
		wl := sx.RandomWorkload(rng, 8, 2, false, nil)
		r, err := sx.Start(filepath.Join(dir, "idx"), wl, 1, 0.3)
		if err != nil {
			fmt.Println(err)
			return 1
		}
		r.SetHolds(sx.DefaultHolds)
		r.Think = 2 * time.Millisecond
		go func() { time.Sleep(8 * time.Millisecond); r.ForceMerge() }()
		r.RunWriters()
		r.Settle(20 * time.Second)
		r.Close()
		for _, ev := range r.Rec.Events() {
			b, _ := json.Marshal(ev)
			fmt.Println(string(b))
		}
		return 0
	})
}
