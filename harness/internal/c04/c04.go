// Package c04: "Readers see whole batches, in order, and a reader's view never
// changes".
//
// Model decides: spec/ScorchDisk.tla config content — two writers whose
// optimistic obsoletes are prepared against stale roots, in-memory merges,
// file merges with deletions arriving during the merge, persists: RootIsReplay
// (never part of a batch), HeldAreReplays, ReaderStable, LayoutStutters.
//
// Code is bound by: in-process runs on real indexes with concurrent writers,
// forced merges, the hold-rule scheduler and seeded pauses at the hook points;
// client goroutines issue single-snapshot searches and hold low-level readers
// across mutations; TLC (spec/trace/TraceReads.tla) judges every read:
// replay of a prefix, contains every batch returned before the read began,
// per-client monotone, reader observations identical for its lifetime.
package c04

import (
	"fmt"
	"math/rand"
	"os"
	"path/filepath"
	"sync"
	"time"

	"verif/harness/internal/core"
	"verif/harness/internal/sx"
)

func init() {
	core.Register(&core.Check{Prop: "C04", Level: "model_checking", Run: run})
}

var readEvents = map[string]bool{"Reset": true, "Submit": true, "IntroSegment": true, "Return": true,
	"ReadBegin": true, "ReadEnd": true, "ReadError": true, "TermRead": true, "ReaderOpenBegin": true, "ReaderObs": true, "ReaderClose": true}

func records(evs []sx.Event) []any {
	var out []any
	for _, ev := range evs {
		name, _ := ev["ev"].(string)
		if !readEvents[name] {
			continue
		}
		m := map[string]any{"ev": name}
		for _, k := range []string{"b", "puts", "dels", "c", "r", "docs", "count", "seq", "err"} {
			if v, ok := ev[k]; ok {
				m[k] = v
			}
		}
		out = append(out, m)
	}
	return out
}

type outcome struct {
	Name    string
	Records []any
	Scorch  []any
	Reads   int
}

func runScorch(c *core.Ctx, name string, wl sx.Workload, seed int64) (*outcome, error) {
	base := c.TempDir("c04")
	defer os.RemoveAll(base)
	r, err := sx.Start(filepath.Join(base, "idx"), wl, seed, 0.5)
	if err != nil {
		return nil, err
	}
	r.SetHolds(sx.DefaultHolds)
	r.Think = 2 * time.Millisecond
	stop := make(chan struct{})
	var wg sync.WaitGroup
	out := &outcome{Name: name}
	var mu sync.Mutex
	var firstErr error
	fail := func(err error) {
		mu.Lock()
		if firstErr == nil {
			firstErr = err
		}
		mu.Unlock()
	}
	// search clients
	for cl := 1; cl <= 2; cl++ {
		wg.Add(1)
		go func(cl int) {
			defer wg.Done()
			rng := rand.New(rand.NewSource(seed*10 + int64(cl)))
			for {
				select {
				case <-stop:
					return
				default:
				}
				r.Rec.Emit("ReadBegin", map[string]any{"c": cl})
				docs, err := sx.SearchContent(r.Idx)
				if err != nil {
					// the search itself failed (the index is open and healthy): recorded and judged
					r.Rec.Emit("ReadError", map[string]any{"c": cl, "err": err.Error()})
					time.Sleep(time.Millisecond)
					continue
				}
				r.Rec.Emit("ReadEnd", map[string]any{"c": cl, "docs": docs})
				// a query that MATCHES on the version term and returns the STORED version:
				// both must come from the same snapshot
				if nb := r.Rec.Count("Submit"); nb > 0 {
					b := nb - rng.Intn(3)
					if b < 1 {
						b = 1
					}
					tdocs, err := sx.SearchVersion(r.Idx, b)
					if err != nil {
						r.Rec.Emit("ReadError", map[string]any{"c": cl, "err": err.Error()})
						time.Sleep(time.Millisecond)
						continue
					}
					r.Rec.Emit("TermRead", map[string]any{"c": cl, "b": b, "docs": tdocs})
				}
				mu.Lock()
				out.Reads += 2
				mu.Unlock()
				time.Sleep(time.Duration(rng.Intn(1500)) * time.Microsecond)
			}
		}(cl)
	}
	// long-lived readers held across mutations
	wg.Add(1)
	go func() {
		defer wg.Done()
		rng := rand.New(rand.NewSource(seed*10 + 7))
		for {
			select {
			case <-stop:
				return
			default:
			}
			id, err := r.OpenReader()
			if err != nil {
				fail(err)
				return
			}
			nobs := 2 + rng.Intn(3)
			for i := 0; i < nobs; i++ {
				docs, count, seq, err := sx.ReaderContent(r.Reader(id))
				if err != nil {
					fail(err)
					break
				}
				r.Rec.Emit("ReaderObs", map[string]any{"r": id, "docs": docs, "count": count, "seq": seq})
				mu.Lock()
				out.Reads++
				mu.Unlock()
				time.Sleep(time.Duration(500+rng.Intn(6000)) * time.Microsecond)
			}
			r.CloseReader(id)
		}
	}()
	wg.Add(1)
	go func() {
		defer wg.Done()
		rng := rand.New(rand.NewSource(seed*10 + 9))
		for {
			select {
			case <-stop:
				return
			default:
			}
			time.Sleep(time.Duration(2000+rng.Intn(7000)) * time.Microsecond)
			_ = r.ForceMerge()
		}
	}()
	werr := r.RunWriters()
	time.Sleep(5 * time.Millisecond)
	close(stop)
	wg.Wait()
	cerr := r.Close()
	if werr != nil {
		return nil, fmt.Errorf("%s: batch failed: %v", name, werr)
	}
	if firstErr != nil {
		return nil, fmt.Errorf("%s: read failed: %v", name, firstErr)
	}
	if cerr != nil {
		return nil, cerr
	}
	out.Records = records(r.Rec.Events())
	out.Scorch = sx.ScorchRecords(r.Rec.Events())
	return out, nil
}

// runDirectedMemMerge drives the schedule "several merge units of the persister's
// in-memory merge are overtaken by a batch" (ScorchDisk: PTake over >= 4 unpersisted
// segments, PMMWrite with several workers, IntroSegment of a delete + update, PMMIntro):
// the deletions that arrived during the merge must land in the RIGHT new segment.
func runDirectedMemMerge(c *core.Ctx, name string, seed int64) (*outcome, error) {
	base := c.TempDir("c04d")
	defer os.RemoveAll(base)
	wl := sx.Workload{Name: name, Writers: 1, Safe: false, KVConfig: map[string]interface{}{"unsafe_batch": true,
		"scorchPersisterOptions": map[string]interface{}{"NumPersisterWorkers": 3, "MaxSizeInMemoryMergePerWorker": 1}}}
	r, err := sx.Start(filepath.Join(base, "idx"), wl, seed, 0)
	if err != nil {
		return nil, err
	}
	out := &outcome{Name: name}
	read := func() {
		r.Rec.Emit("ReadBegin", map[string]any{"c": 1})
		docs, err := sx.SearchContent(r.Idx)
		if err != nil {
			r.Rec.Emit("ReadError", map[string]any{"c": 1, "err": err.Error()})
			return
		}
		r.Rec.Emit("ReadEnd", map[string]any{"c": 1, "docs": docs})
		if os.Getenv("VERIF_C04_DEBUG") != "" {
			c.Logf("%s read: %v", name, docs)
		}
		out.Reads++
	}
	r.Quiesce(20 * time.Second)
	r.SetHolds([]sx.HoldRule{
		{Point: "persist.loop", Until: "IntroSegment", Count: 5, Timeout: 10 * time.Second, Prob: 1, Once: true},
		{Point: "memmerge.beforeIntro", Until: "IntroSegment", Count: 1, Timeout: 10 * time.Second, Prob: 1, Once: true},
	})
	ids := []string{"a", "b", "c", "d"}
	if seed%2 == 1 {
		ids = []string{"d", "c", "b", "a"}
	}
	// six unpersisted segments; the first two each hold one live document and one that a
	// later version has obsoleted when the persister takes its snapshot (every merge unit of
	// the in-memory merge has its own drops)
	for _, puts := range [][]string{{ids[0], ids[1]}, {ids[2], ids[3]}, {ids[0]}, {ids[2]}, {"e"}, {"f"}} {
		if _, err := r.Submit(sx.BatchSpec{W: 1, Puts: puts, Dels: []string{}}); err != nil {
			_ = r.Close()
			return nil, err
		}
		read()
	}
	parked := r.WaitParked("memmerge.beforeIntro", 1, 10*time.Second)
	// the overtaking batch: deletes a document of a later merge unit, rewrites another
	if _, err := r.Submit(sx.BatchSpec{W: 1, Puts: []string{"f"}, Dels: []string{"e"}}); err != nil {
		_ = r.Close()
		return nil, err
	}
	read()
	r.Quiesce(20 * time.Second)
	read()
	_ = r.ForceMerge()
	r.Quiesce(20 * time.Second)
	read()
	r.SetHolds(nil)
	if err := r.Close(); err != nil {
		return nil, err
	}
	if parked {
		c.AddExtra("directed_memmerge_runs_with_the_merge_overtaken", 1)
	}
	out.Records = records(r.Rec.Events())
	out.Scorch = sx.ScorchRecords(r.Rec.Events())
	return out, nil
}

// runDirectedIntroAfterMerge: a batch is prepared against root R (ScorchDisk!Prepare),
// a merge of the segments holding the old versions is introduced (MIntro), then the
// batch is introduced on top of the merged root (IntroSegment): the obsoletes of the
// segment the writer never saw have to be recomputed by the introducer.
func runDirectedIntroAfterMerge(c *core.Ctx, name string, seed int64) (*outcome, error) {
	base := c.TempDir("c04i")
	defer os.RemoveAll(base)
	wl := sx.Workload{Name: name, Writers: 1, Safe: false, KVConfig: map[string]interface{}{"unsafe_batch": true,
		"scorchMergePlanOptions": map[string]interface{}{"FloorSegmentSize": 1}}} // passive background planner
	r, err := sx.Start(filepath.Join(base, "idx"), wl, seed, 0)
	if err != nil {
		return nil, err
	}
	out := &outcome{Name: name}
	read := func() {
		r.Rec.Emit("ReadBegin", map[string]any{"c": 1})
		docs, err := sx.SearchContent(r.Idx)
		if err != nil {
			r.Rec.Emit("ReadError", map[string]any{"c": 1, "err": err.Error()})
			return
		}
		r.Rec.Emit("ReadEnd", map[string]any{"c": 1, "docs": docs})
		out.Reads++
	}
	for _, id := range []string{"a", "b", "c"} {
		if _, err := r.Submit(sx.BatchSpec{W: 1, Puts: []string{id}, Dels: []string{}}); err != nil {
			_ = r.Close()
			return nil, err
		}
		r.Quiesce(20 * time.Second) // one file segment per batch
	}
	read()
	r.SetHolds([]sx.HoldRule{{Point: "batch.send", Until: "IntroMerge", Count: 1, Timeout: 10 * time.Second, Prob: 1, Once: true}})
	done := make(chan error, 1)
	go func() { // update of a, delete of b (seed-dependent: the other way round)
		bs := sx.BatchSpec{W: 1, Puts: []string{"a"}, Dels: []string{"b"}}
		if seed%2 == 1 {
			bs = sx.BatchSpec{W: 1, Puts: []string{"b"}, Dels: []string{"a"}}
		}
		_, err := r.Submit(bs)
		done <- err
	}()
	parked := r.WaitParked("batch.send", 1, 10*time.Second)
	_ = r.ForceMerge() // the segments holding a, b, c become one new segment
	if err := <-done; err != nil {
		_ = r.Close()
		return nil, err
	}
	read()
	r.Quiesce(20 * time.Second)
	read()
	r.SetHolds(nil)
	if err := r.Close(); err != nil {
		return nil, err
	}
	if parked {
		c.AddExtra("directed_runs_with_a_batch_introduced_after_a_merge_it_did_not_see", 1)
	}
	out.Records = records(r.Rec.Events())
	out.Scorch = sx.ScorchRecords(r.Rec.Events())
	return out, nil
}

// runScheduled executes one TLC-generated schedule; the marker document is added
// to every batch, a search is issued after every step and a low-level reader is
// held and re-read across steps.
func runScheduled(c *core.Ctx, name string, sch sx.Schedule) (*outcome, error) {
	base := c.TempDir("c04s")
	defer os.RemoveAll(base)
	for i := range sch.Steps {
		if b := sch.Steps[i].Batch; b != nil && len(name)%2 == 0 {
			nb := *b
			nb.Puts = append(append([]string{}, b.Puts...), "m")
			sch.Steps[i].Batch = &nb
		}
	}
	out := &outcome{Name: name}
	var rerr error
	held := 0
	r, _, err := sx.RunSchedule(filepath.Join(base, "idx"), sch, c.Seed, func(r *sx.Run, i int, st sx.SchedStep) {
		if rerr != nil {
			return
		}
		r.Rec.Emit("ReadBegin", map[string]any{"c": 1})
		docs, err := sx.SearchContent(r.Idx)
		if err != nil {
			r.Rec.Emit("ReadError", map[string]any{"c": 1, "err": err.Error()})
			return
		}
		r.Rec.Emit("ReadEnd", map[string]any{"c": 1, "docs": docs})
		out.Reads++
		if held == 0 && i%5 == 1 {
			if id, err := r.OpenReader(); err == nil {
				held = id
			}
		}
		if held != 0 {
			if d, count, seq, err := sx.ReaderContent(r.Reader(held)); err == nil {
				r.Rec.Emit("ReaderObs", map[string]any{"r": held, "docs": d, "count": count, "seq": seq})
				out.Reads++
			}
			if i%5 == 0 {
				r.CloseReader(held)
				held = 0
			}
		}
	})
	if err != nil {
		return nil, err
	}
	if held != 0 {
		r.CloseReader(held)
	}
	r.Settle(20 * time.Second)
	if err := r.Close(); err != nil {
		return nil, err
	}
	if rerr != nil {
		return nil, fmt.Errorf("%s: read failed: %v", name, rerr)
	}
	out.Records = records(r.Rec.Events())
	out.Scorch = sx.ScorchRecords(r.Rec.Events())
	return out, nil
}

// conformance validates the recorded root swaps of every scorch run against the
// transition functions of ScorchOps.tla (TraceScorch.tla). A mismatch is DRIFT:
// the exhaustive result of the design spec no longer transfers to this code,
// while the property verdict is left to the judged reads.
func conformance(c *core.Ctx, outs []*outcome) {
	var recs []any
	owner := []string{}
	for _, o := range outs {
		for _, r := range o.Scorch {
			recs = append(recs, r)
			owner = append(owner, o.Name)
		}
	}
	if len(recs) == 0 {
		return
	}
	tf, err := c.ValidateTrace("TraceScorch", "TraceScorch.cfg", recs, core.Timeout(15*time.Minute), core.Heap(6000))
	if err != nil {
		c.Inconclusive(err.Error())
		return
	}
	n := 0
	for _, r := range recs {
		if ev := r.(map[string]any)["ev"]; ev == "IntroSegment" || ev == "IntroMerge" || ev == "IntroPersist" {
			n++
		}
	}
	c.Extra("root_swaps_validated_against_ScorchOps", n)
	if tf != nil {
		idx := tf.Line - 2
		where := "?"
		if idx >= 0 && idx < len(owner) {
			where = fmt.Sprintf("%s record %v", owner[idx], recs[idx])
		}
		c.Drift(fmt.Sprintf("TraceScorch: %s at %s", tf.Invariant+tf.Text, where))
	}
}

func run(c *core.Ctx) error {
	c.SetRule("one evaluation = one single-snapshot search or one full observation through a held low-level reader, issued by client goroutines while 2 writers, forced merges, persister, merger and purger run under the hold-rule scheduler; TLC judges each against the recorded introduction order. " +
		"distinct_nontrivial = distinct (run, prefix length, content) observed with at least one live document")
	if _, ok := c.ModelCheck("ScorchDisk", "ScorchDisk_mc_content.cfg", core.Workers(8), core.Timeout(25*time.Minute), core.Heap(8000)); !ok {
		return nil
	}
	rng := rand.New(rand.NewSource(c.Seed * 13))
	var outs []*outcome
	n := c.Pick(4, 30)
	for i := 0; i < n; i++ {
		var kv map[string]interface{}
		safe := i%4 == 1
		if i%4 == 2 {
			kv = map[string]interface{}{"scorchPersisterOptions": map[string]interface{}{"NumPersisterWorkers": 3, "MaxSizeInMemoryMergePerWorker": 1}}
		}
		wl := sx.RandomWorkload(rng, c.Pick(30, 60), 2, safe, kv)
		if i%2 == 0 {
			// the marker document makes every segment carry a deletion soon; half of
			// the runs go without it (searches are then matched against every prefix)
			wl = wl.WithMarker()
		}
		name := fmt.Sprintf("scorch-run-%d(safe=%v)", i, safe)
		o, err := runScorch(c, name, wl, c.Seed*100+int64(i))
		if err != nil {
			return err
		}
		c.Logf("%s: %d reads", name, o.Reads)
		outs = append(outs, o)
	}
	// Engine S: schedules generated by TLC (simulated behaviours of ScorchDisk.tla
	// projected onto (process, step) sequences) drive the real goroutines gate by
	// gate; after every step a client searches and a held reader is re-read
	for _, safe := range []bool{false, true} {
		scheds, err := sx.SimulatedSchedules(c, c.Pick(6, 60), c.Pick(50, 70), c.Seed+int64(len(outs)), safe)
		if err != nil {
			return err
		}
		for i, sch := range scheds {
			o, err := runScheduled(c, fmt.Sprintf("tlc-schedule-%d(safe=%v)", i, safe), sch)
			if err != nil {
				return err
			}
			outs = append(outs, o)
		}
		c.Logf("%d TLC-generated schedules executed (safe=%v)", len(scheds), safe)
	}
	for k := 0; k < c.Pick(3, 8); k++ {
		o, err := runDirectedMemMerge(c, fmt.Sprintf("directed-memmerge-units-overtaken-%d", k), c.Seed*10+int64(k))
		if err != nil {
			return err
		}
		outs = append(outs, o)
	}
	for k := 0; k < c.Pick(2, 6); k++ {
		o, err := runDirectedIntroAfterMerge(c, fmt.Sprintf("directed-batch-introduced-after-unseen-merge-%d", k), c.Seed*10+int64(k))
		if err != nil {
			return err
		}
		outs = append(outs, o)
	}
	if err := sx.PlannerContract(c, "c04"); err != nil {
		return err
	}
	conformance(c, outs)
	// upsidedown: KV snapshot + separately cached docCount (Upsidedown's two-step
	// commit / two-step reader open), over gtreap and boltdb
	for i, kv := range []string{"gtreap", "boltdb"} {
		path := ""
		if kv == "boltdb" {
			path = filepath.Join(c.TempDir("c04u"), "idx")
		}
		for j := 0; j < c.Pick(1, 6); j++ {
			name := fmt.Sprintf("upsidedown-%s-%d", kv, j)
			p := path
			if p != "" {
				p = fmt.Sprintf("%s-%d", path, j)
			}
			o, err := runUpsidedown(c, name, kv, p, c.Seed*100+int64(10*i+j), c.Pick(40, 80))
			if err != nil {
				return err
			}
			c.Logf("%s: %d reads", name, o.Reads)
			outs = append(outs, o)
		}
	}
	judge(c, outs)
	c.SetExhaustive(false)
	return nil
}

func judge(c *core.Ctx, outs []*outcome) {
	for _, o := range outs {
		for _, r := range o.Records {
			m := r.(map[string]any)
			if m["ev"] == "ReadEnd" || m["ev"] == "ReaderObs" || m["ev"] == "TermRead" {
				c.Eval(1)
				if d, ok := m["docs"].([][]any); ok && len(d) > 0 {
					c.Distinct(core.Canon([]any{o.Name, m["docs"]}))
				}
			}
		}
	}
	if len(outs) > 0 {
		n := 0
		var sample []any
		for _, r := range outs[0].Records {
			if n < 14 {
				sample = append(sample, r)
				n++
			}
		}
		c.Sample(map[string]any{"run": outs[0].Name, "trace_prefix": sample})
	}
	live := map[int]bool{}
	for i := range outs {
		live[i] = true
	}
	nbad := 0
	for len(live) > 0 {
		var recs []any
		owner := []int{}
		for i, o := range outs {
			if !live[i] {
				continue
			}
			for _, x := range o.Records {
				recs = append(recs, x)
				owner = append(owner, i)
			}
		}
		tf, err := c.ValidateTrace("TraceReads", "TraceReads.cfg", recs, core.Timeout(15*time.Minute), core.Heap(6000))
		if err != nil {
			c.Inconclusive(err.Error())
			return
		}
		if tf == nil {
			c.Traces(len(live))
			return
		}
		idx := tf.Line - 1 // invariants look at the record about to be consumed
		if idx < 0 || idx >= len(owner) {
			c.Inconclusive(fmt.Sprintf("TraceReads rejected without a usable position: %s", tf.Text))
			return
		}
		inv := tf.Invariant
		if inv == "" {
			inv = "TraceNotAccepted"
		}
		bad := owner[idx]
		c.Violation("c04/"+inv, fmt.Sprintf("%s violated in %s at record %v", inv, outs[bad].Name, recs[idx]), map[string]any{"scenario": outs[bad].Name, "record": recs[idx], "trace": outs[bad].Records})
		delete(live, bad)
		if nbad++; nbad >= 4 {
			return // enough: every further rejected run costs one more TLC run
		}
	}
}
