package c04

import (
	"fmt"
	"math/rand"
	"sync"
	"sync/atomic"
	"time"

	bleve "github.com/blevesearch/bleve/v2"
	"github.com/blevesearch/bleve/v2/index/upsidedown"
	_ "github.com/blevesearch/bleve/v2/index/upsidedown/store/boltdb"
	_ "github.com/blevesearch/bleve/v2/index/upsidedown/store/gtreap"
	"github.com/blevesearch/bleve/v2/registry"
	store "github.com/blevesearch/upsidedown_store_api"

	"verif/harness/internal/core"
	"verif/harness/internal/sx"
)

// gatekv wraps a KV store: it pauses right AFTER the engine committed a batch
// (inside Writer.ExecuteBatch) and right AFTER a reader's snapshot was taken
// (inside Store.Reader). These are the two steps Upsidedown's spec models
// separately (DESIGN 2.3): "KV commit" vs "docCount update" and "KV snapshot"
// vs "docCount read". No source hook is needed.
type gateStore struct {
	store.KVStore
}
type gateWriter struct {
	store.KVWriter
}

var gatePause int64 // nanoseconds; 0 = off

func pause() {
	if d := atomic.LoadInt64(&gatePause); d > 0 {
		time.Sleep(time.Duration(d))
	}
}

func (s *gateStore) Writer() (store.KVWriter, error) {
	w, err := s.KVStore.Writer()
	if err != nil {
		return nil, err
	}
	return &gateWriter{w}, nil
}
func (s *gateStore) Reader() (store.KVReader, error) {
	r, err := s.KVStore.Reader()
	pause()
	return r, err
}
func (w *gateWriter) ExecuteBatch(b store.KVBatch) error {
	err := w.KVWriter.ExecuteBatch(b)
	pause()
	return err
}

var registerOnce sync.Once

func registerGateKV() {
	registerOnce.Do(func() {
		for _, inner := range []string{"gtreap", "boltdb"} {
			inner := inner
			_ = registry.RegisterKVStore("gate-"+inner, func(mo store.MergeOperator, config map[string]interface{}) (store.KVStore, error) {
				s, err := registry.KVStoreConstructorByName(inner)(mo, config)
				if err != nil {
					return nil, err
				}
				return &gateStore{s}, nil
			})
		}
	})
}

// runUpsidedown: writers (Index / Delete / Batch) and reader clients on an
// upsidedown index over the gated store. Events use the TraceReads vocabulary;
// the introduction order of upsidedown is the order in which the serialized
// writers commit, observed as IntroSegment emitted right after each call
// returns (writers are serialized by writeMutex, and the harness serializes the
// emission with the call through its own mutex).
func runUpsidedown(c *core.Ctx, name, kv string, path string, seed int64, nb int) (*outcome, error) {
	registerGateKV()
	idx, err := bleve.NewUsing(path, bleve.NewIndexMapping(), upsidedown.Name, "gate-"+kv, nil)
	if err != nil {
		return nil, err
	}
	defer idx.Close()
	rec := sx.NewRecorder("")
	rec.Emit("Reset", map[string]any{"safe": true})
	rng := rand.New(rand.NewSource(seed))
	wl := sx.RandomWorkload(rng, nb, 1, true, nil).WithMarker()
	atomic.StoreInt64(&gatePause, int64(300*time.Microsecond))
	defer atomic.StoreInt64(&gatePause, 0)
	out := &outcome{Name: name}
	stop := make(chan struct{})
	var wg sync.WaitGroup
	var mu sync.Mutex
	var firstErr error
	fail := func(err error) {
		mu.Lock()
		if firstErr == nil {
			firstErr = err
		}
		mu.Unlock()
	}
	adv, err := idx.Advanced()
	if err != nil {
		return nil, err
	}
	for cl := 1; cl <= 2; cl++ {
		wg.Add(1)
		go func(cl int) {
			defer wg.Done()
			rid := cl * 100
			for {
				select {
				case <-stop:
					return
				default:
				}
				if cl == 1 {
					rec.Emit("ReadBegin", map[string]any{"c": cl})
					docs, err := sx.SearchContent(idx)
					if err != nil {
						rec.Emit("ReadError", map[string]any{"c": cl, "err": err.Error()})
						time.Sleep(time.Millisecond)
						continue
					}
					rec.Emit("ReadEnd", map[string]any{"c": cl, "docs": docs})
				} else {
					rid++
					if rid > 390 {
						rid = 201
					}
					rec.Emit("ReaderOpenBegin", map[string]any{"r": rid})
					rd, err := adv.Reader()
					if err != nil {
						fail(err)
						return
					}
					for i := 0; i < 2; i++ {
						docs, count, seq, err := sx.ReaderContent(rd)
						if err != nil {
							fail(err)
							break
						}
						rec.Emit("ReaderObs", map[string]any{"r": rid, "docs": docs, "count": count, "seq": seq})
						time.Sleep(200 * time.Microsecond)
					}
					rec.Emit("ReaderClose", map[string]any{"r": rid})
					_ = rd.Close()
				}
				mu.Lock()
				out.Reads++
				mu.Unlock()
			}
		}(cl)
	}
	// one writer; Submit ... IntroSegment ... Return around each call. The KV
	// commit happens inside the call; IntroSegment is logged when it returns,
	// which is later than the publication. A reader may therefore see batch b
	// before IntroSegment(b) is logged: log the introduction BEFORE the call
	// instead (upsidedown has a single serialized writer here, so the order of
	// introductions is the order of calls).
	for i, bs := range wl.Batches {
		bs.B = i + 1
		rec.Emit("Submit", map[string]any{"b": bs.B, "puts": strs(bs.Puts), "dels": strs(bs.Dels)})
		rec.Emit("IntroSegment", map[string]any{"b": bs.B})
		batch, err := sx.BuildBatch(idx, bs, nil)
		if err == nil {
			if len(bs.Puts)+len(bs.Dels) == 1 && len(bs.Puts) == 1 && false {
				err = idx.Index(bs.Puts[0], sx.DocVer(bs.B))
			} else {
				err = idx.Batch(batch)
			}
		}
		if err != nil {
			close(stop)
			wg.Wait()
			return nil, fmt.Errorf("%s: batch: %v", name, err)
		}
		rec.Emit("Return", map[string]any{"b": bs.B})
		time.Sleep(time.Duration(rng.Intn(800)) * time.Microsecond)
	}
	close(stop)
	wg.Wait()
	if firstErr != nil {
		return nil, firstErr
	}
	out.Records = records(rec.Events())
	return out, nil
}

func strs(ss []string) []any {
	out := []any{}
	for _, s := range ss {
		out = append(out, s)
	}
	return out
}
