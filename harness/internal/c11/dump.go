package c11

// Goroutine dumps: the census of bleve goroutines and the deadlock verdict
// rule of DESIGN §3.4.

import (
	"regexp"
	"runtime"
	"sort"
	"strings"
	"time"
)

const blevePath = "github.com/blevesearch/bleve/v2"

type gor struct {
	ID       string
	State    string   // "chan receive", "select", "sync.RWMutex.RLock", "running", ...
	Funcs    []string // function names, innermost first
	TopBleve string   // innermost function of a bleve/v2 frame ("" if none)
	Text     string
}

func allStacks() string {
	buf := make([]byte, 1<<20)
	for {
		n := runtime.Stack(buf, true)
		if n < len(buf) {
			return string(buf[:n])
		}
		buf = make([]byte, 2*len(buf))
	}
}

var reHdr = regexp.MustCompile(`^goroutine (\d+) \[([^\]]*)\]:`)

func parseStacks(s string) []gor {
	var out []gor
	for _, blk := range strings.Split(s, "\n\n") {
		lines := strings.Split(strings.TrimSpace(blk), "\n")
		if len(lines) == 0 {
			continue
		}
		m := reHdr.FindStringSubmatch(lines[0])
		if m == nil {
			continue
		}
		st := m[2]
		if i := strings.Index(st, ","); i >= 0 { // drop ", 2 minutes", ", locked to thread"
			st = st[:i]
		}
		g := gor{ID: m[1], State: st, Text: blk}
		for _, ln := range lines[1:] {
			if strings.HasPrefix(ln, "\t") || strings.HasPrefix(ln, "created by ") {
				continue
			}
			fn := ln
			if i := strings.LastIndex(fn, "("); i > 0 {
				fn = fn[:i]
			}
			g.Funcs = append(g.Funcs, fn)
			if g.TopBleve == "" && strings.HasPrefix(fn, blevePath) {
				g.TopBleve = strings.TrimPrefix(fn, blevePath)
			}
		}
		out = append(out, g)
	}
	return out
}

// bleveGoroutines: signature -> count of goroutines that are executing bleve/v2 code.
func bleveGoroutines(dump string) map[string]int {
	rv := map[string]int{}
	for _, g := range parseStacks(dump) {
		if g.TopBleve != "" {
			rv[g.TopBleve]++
		}
	}
	return rv
}

var blockedStates = map[string]bool{
	"chan receive": true, "chan send": true, "select": true, "select (no cases)": true,
	"sync.RWMutex.RLock": true, "sync.RWMutex.Lock": true, "sync.Mutex.Lock": true,
	"sync.WaitGroup.Wait": true, "sync.Cond.Wait": true, "semacquire": true,
	"chan receive (nil chan)": true, "chan send (nil chan)": true,
}

// Hang is the outcome of the deadlock rule: with every injected delay
// released, two samples of the goroutine dump taken `gap` apart.
type Hang struct {
	AllBlocked bool     `json:"all_blocked"` // every goroutine with bleve frames is blocked in a channel/mutex operation
	Stable     bool     `json:"stable"`      // the same goroutines, in the same state at the same place, in both samples
	Blocked    []string `json:"blocked"`     // "<innermost bleve function> [<state>]" of every bleve goroutine, sorted
	StuckCalls []string `json:"stuck_calls"` // operations that never returned
	Signature  string   `json:"signature"`
	Dump       string   `json:"dump"` // second sample, bleve goroutines only
}

func analyseHang(gap time.Duration) *Hang {
	d1 := parseStacks(allStacks())
	time.Sleep(gap)
	d2 := parseStacks(allStacks())
	key := func(gs []gor) (map[string]string, bool) {
		m := map[string]string{}
		all := true
		for _, g := range gs {
			if g.TopBleve == "" {
				continue
			}
			m[g.ID] = g.TopBleve + " [" + g.State + "]"
			if !blockedStates[g.State] {
				all = false
			}
		}
		return m, all
	}
	m1, a1 := key(d1)
	m2, a2 := key(d2)
	h := &Hang{AllBlocked: a1 && a2, Stable: len(m1) == len(m2)}
	for id, v := range m2 {
		if m1[id] != v {
			h.Stable = false
		}
		h.Blocked = append(h.Blocked, v)
	}
	sort.Strings(h.Blocked)
	var sb strings.Builder
	for _, g := range d2 {
		if g.TopBleve != "" {
			sb.WriteString(g.Text)
			sb.WriteString("\n\n")
		}
	}
	h.Dump = sb.String()
	if len(h.Dump) > 60000 {
		h.Dump = h.Dump[:60000]
	}
	// signature: the set of blocked positions. Index methods queueing in RLock behind a pending
	// or active writer are consequences, and which of them are caught there differs from run to
	// run: they are listed in Blocked but left out of the signature.
	uniq := map[string]bool{}
	for _, b := range h.Blocked {
		if strings.HasPrefix(b, ".(*indexImpl).") && strings.HasSuffix(b, "[sync.RWMutex.RLock]") {
			continue
		}
		uniq[b] = true
	}
	var parts []string
	for b := range uniq {
		parts = append(parts, b)
	}
	sort.Strings(parts)
	h.Signature = "hang:" + strings.Join(parts, "+")
	return h
}

// waitBlocked polls the goroutine dump until some goroutine whose stack
// contains every function-name fragment in `frames` is in state `state`.
// Handshake by observation: no sleeping on a guess.
func waitBlocked(state string, timeout time.Duration, frames ...string) bool {
	deadline := time.Now().Add(timeout)
	for {
		for _, g := range parseStacks(allStacks()) {
			if g.State != state {
				continue
			}
			ok := true
			for _, fr := range frames {
				found := false
				for _, fn := range g.Funcs {
					if strings.Contains(fn, fr) {
						found = true
						break
					}
				}
				if !found {
					ok = false
					break
				}
			}
			if ok {
				return true
			}
		}
		if time.Now().After(deadline) {
			return false
		}
		time.Sleep(2 * time.Millisecond)
	}
}
