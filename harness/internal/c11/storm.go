package c11

import (
	"bytes"
	"context"
	"fmt"
	"math/rand"
	"os"
	"os/exec"
	"path/filepath"
	"strconv"
	"strings"
	"sync"
	"sync/atomic"
	"time"

	bleve "github.com/blevesearch/bleve/v2"
	"github.com/blevesearch/bleve/v2/index/scorch"

	"verif/harness/internal/core"
)

// The storm: many readers against one writer that swaps the root as fast as it
// can, in a process of its own (a snapshot released under a live reader takes
// the whole process down with a memory fault, which nothing can recover).
// Exploration-level evidence for "without ... panics": no model, the verdict
// is "the process survived / died inside bleve twice in two runs".

func init() { core.RegisterChild("c11storm", stormChild) }

// args: <dir> <seconds> <readers> <seed>
func stormChild(args []string) int {
	if len(args) < 4 {
		return 2
	}
	dir := args[0]
	secs, _ := strconv.Atoi(args[1])
	readers, _ := strconv.Atoi(args[2])
	seed, _ := strconv.ParseInt(args[3], 10, 64)
	idx, err := bleve.NewUsing(filepath.Join(dir, "idx"), bleve.NewIndexMapping(), scorch.Name, scorch.Name, map[string]interface{}{"unsafe_batch": true})
	if err != nil {
		fmt.Fprintln(os.Stderr, "HARNESS-ERROR: open:", err)
		return 2
	}
	stop := make(chan struct{})
	var wg sync.WaitGroup
	var ops int64
	wg.Add(1)
	go func() { // the writer: small batches, updates and deletes of a small id space
		defer wg.Done()
		rng := rand.New(rand.NewSource(seed))
		for n := 0; ; n++ {
			select {
			case <-stop:
				return
			default:
			}
			b := idx.NewBatch()
			for k := 0; k < 1+rng.Intn(3); k++ {
				id := fmt.Sprintf("d%d", rng.Intn(40))
				if rng.Intn(5) == 0 {
					b.Delete(id)
				} else {
					_ = b.Index(id, map[string]interface{}{"t": fmt.Sprintf("a b%d c%d", rng.Intn(5), n%7), "n": float64(n)})
				}
			}
			if err := idx.Batch(b); err != nil {
				fmt.Fprintln(os.Stderr, "HARNESS-ERROR: batch:", err)
				os.Exit(2)
			}
			atomic.AddInt64(&ops, 1)
		}
	}()
	for g := 0; g < readers; g++ {
		wg.Add(1)
		go func(g int) {
			defer wg.Done()
			rng := rand.New(rand.NewSource(seed*100 + int64(g)))
			for {
				select {
				case <-stop:
					return
				default:
				}
				switch rng.Intn(4) {
				case 0:
					_, _ = idx.DocCount()
				case 1:
					_, _ = idx.Document(fmt.Sprintf("d%d", rng.Intn(40)))
				default:
					req := bleve.NewSearchRequest(bleve.NewMatchQuery("a"))
					req.Size = 3
					if rng.Intn(2) == 0 {
						req.Fields = []string{"t"}
					}
					_, _ = idx.Search(req)
				}
				atomic.AddInt64(&ops, 1)
			}
		}(g)
	}
	time.Sleep(time.Duration(secs) * time.Second)
	close(stop)
	wg.Wait()
	if err := idx.Close(); err != nil {
		fmt.Fprintln(os.Stderr, "HARNESS-ERROR: close:", err)
		return 2
	}
	fmt.Printf("%d\n", atomic.LoadInt64(&ops))
	return 0
}

func runStorm(c *core.Ctx) {
	for k, readers := range []int{48, 8} {
		crashes := 0
		first := ""
		var total int64
		for attempt := 0; attempt < 2; attempt++ {
			dir := c.TempDir("c11storm")
			ctx, cancel := context.WithTimeout(context.Background(), 3*time.Minute)
			cmd := exec.CommandContext(ctx, core.SelfExe(), "child:c11storm", dir, strconv.Itoa(c.Pick(3, 12)), strconv.Itoa(readers), strconv.FormatInt(c.Seed*10+int64(k), 10))
			var stderr, stdout bytes.Buffer
			cmd.Stderr, cmd.Stdout = &stderr, &stdout
			err := cmd.Run()
			timedOut := ctx.Err() == context.DeadlineExceeded
			cancel()
			os.RemoveAll(dir)
			if err == nil {
				n, _ := strconv.ParseInt(strings.TrimSpace(stdout.String()), 10, 64)
				total += n
				break
			}
			txt := stderr.String()
			if timedOut || strings.Contains(txt, "HARNESS-ERROR:") {
				c.Inconclusive(fmt.Sprintf("storm (%d readers): the child did not run: %v %s", readers, err, firstStderrLine(txt)))
				return
			}
			if (strings.Contains(txt, "fatal error") || strings.Contains(txt, "panic:") || strings.Contains(txt, "SIGSEGV")) && strings.Contains(txt, "github.com/blevesearch/") {
				crashes++
				if first == "" {
					first = firstStderrLine(txt) + " ... " + firstBleveFrame(txt)
				}
				continue
			}
			c.Inconclusive(fmt.Sprintf("storm (%d readers): the child failed for an unknown reason: %v %s", readers, err, firstStderrLine(txt)))
			return
		}
		c.Eval(1)
		c.AddExtra("storm_calls", total)
		if crashes == 2 {
			c.Violation("stress:process-crash", fmt.Sprintf("one writer and %d readers using only Batch/Search/Document/DocCount on a disk scorch index: the process died inside bleve in two of two runs: %s", readers, first),
				map[string]any{"kind": "storm", "readers": readers})
			return
		}
		if crashes == 1 {
			c.Inconclusive(fmt.Sprintf("storm (%d readers): the child crashed once but not on the second run: %s", readers, first))
			return
		}
	}
}

func firstStderrLine(s string) string {
	for _, l := range strings.Split(s, "\n") {
		if strings.TrimSpace(l) != "" {
			if len(l) > 160 {
				l = l[:160]
			}
			return l
		}
	}
	return ""
}

func firstBleveFrame(s string) string {
	for _, l := range strings.Split(s, "\n") {
		if strings.HasPrefix(l, "github.com/blevesearch/bleve/v2") {
			if len(l) > 160 {
				l = l[:160]
			}
			return l
		}
	}
	return ""
}
