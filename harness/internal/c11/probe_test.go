package c11

import (
	"context"
	"fmt"
	"os"
	"testing"
	"time"

	"github.com/blevesearch/bleve/v2"
	"github.com/blevesearch/bleve/v2/index/scorch"
	"github.com/blevesearch/bleve/v2/index/upsidedown"
)

func mk(t *testing.T, kind string) bleve.Index {
	m := bleve.NewIndexMapping()
	var idx bleve.Index
	var err error
	switch kind {
	case "disk":
		d, _ := os.MkdirTemp("/dev/shm", "c11probe-")
		t.Cleanup(func() { os.RemoveAll(d) })
		idx, err = bleve.NewUsing(d+"/i", m, scorch.Name, scorch.Name, nil)
	case "mem":
		idx, err = bleve.NewUsing("", m, scorch.Name, scorch.Name, nil)
	case "ud":
		idx, err = bleve.NewUsing("", m, upsidedown.Name, "gtreap", nil)
	}
	if err != nil {
		t.Fatal(err)
	}
	return idx
}

func try(name string, f func() error) {
	done := make(chan string, 1)
	go func() {
		defer func() {
			if r := recover(); r != nil {
				done <- fmt.Sprintf("PANIC %v", r)
			}
		}()
		err := f()
		done <- fmt.Sprintf("err=%v", err)
	}()
	select {
	case s := <-done:
		fmt.Printf("  %-28s %s\n", name, s)
	case <-time.After(3 * time.Second):
		fmt.Printf("  %-28s HANG(3s)\n", name)
	}
}

func TestProbe(t *testing.T) {
	for _, kind := range []string{"disk", "mem", "ud"} {
		fmt.Println("==", kind)
		idx := mk(t, kind)
		try("index", func() error { return idx.Index("a", map[string]any{"f": "x y"}) })
		adv, _ := idx.Advanced()
		if sc, ok := adv.(*scorch.Scorch); ok {
			try("forcemerge-open", func() error { return sc.ForceMerge(context.Background(), nil) })
			try("forcemerge-open2", func() error { return sc.ForceMerge(context.Background(), nil) })
		}
		try("close", idx.Close)
		try("index-after", func() error { return idx.Index("a", map[string]any{"f": "x y"}) })
		try("delete-after", func() error { return idx.Delete("a") })
		try("batch-after", func() error { return idx.Batch(idx.NewBatch()) })
		try("search-after", func() error { _, e := idx.Search(bleve.NewSearchRequest(bleve.NewMatchAllQuery())); return e })
		try("doc-after", func() error { _, e := idx.Document("a"); return e })
		try("doccount-after", func() error { _, e := idx.DocCount(); return e })
		try("fielddict-after", func() error { _, e := idx.FieldDict("f"); return e })
		try("fields-after", func() error { _, e := idx.Fields(); return e })
		try("stats-after", func() error { _ = idx.Stats(); return nil })
		try("statsmap-after", func() error { m := idx.StatsMap(); fmt.Printf("    statsmap index=%v\n", m["index"] != nil); return nil })
		try("statsjson-after", func() error { _, e := idx.Stats().MarshalJSON(); return e })
		if sc, ok := adv.(*scorch.Scorch); ok {
			try("forcemerge-after", func() error { return sc.ForceMerge(context.Background(), nil) })
		}
		if ci, ok := idx.(bleve.IndexCopyable); ok {
			try("copyto-after", func() error { return ci.CopyTo(bleve.FileSystemDirectory("/dev/shm/c11probe-copy")) })
		}
		try("close-again", idx.Close)
		try("close-again2", idx.Close)
	}
}
