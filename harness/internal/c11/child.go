package c11

// Child-process side: `<bin> child:c11 <in.json> <out.json>` runs a list of
// scenarios sequentially and rewrites <out.json> after each one, so the
// parent gets what was finished if the child has to be abandoned. After a
// hang verdict the child exits at once (its goroutines cannot be recovered).

import (
	"context"
	"encoding/json"
	"fmt"
	"os"
	"sync"
	"time"

	"github.com/blevesearch/bleve/v2/index/scorch"

	"verif/harness/internal/core"
)

func init() {
	core.RegisterChild("c11", childMain)
}

func childMain(args []string) int {
	if len(args) < 2 {
		fmt.Fprintln(os.Stderr, "usage: child:c11 <in.json> <out.json>")
		return 2
	}
	b, err := os.ReadFile(args[0])
	if err != nil {
		fmt.Fprintln(os.Stderr, err)
		return 2
	}
	var scs []Scenario
	if err := json.Unmarshal(b, &scs); err != nil {
		fmt.Fprintln(os.Stderr, err)
		return 2
	}
	scorch.VerifHook = theHook
	var out []*Result
	flush := func() {
		ob, _ := json.Marshal(out)
		tmp := args[1] + ".tmp"
		_ = os.WriteFile(tmp, ob, 0o644)
		_ = os.Rename(tmp, args[1])
	}
	for _, sc := range scs {
		r := RunScenario(sc)
		out = append(out, r)
		flush()
		if r.Hang != nil {
			return 3
		}
	}
	return 0
}

// runHazard: the dedicated hazard scenarios. Each follows the schedule of the
// counterexample TLC finds in the corresponding Proto_hz_*.cfg (see c11.go,
// which checks the counterexample's final state before running these).
// Sequencing is by handshake on observed goroutine states, not by sleeping.
func runHazard(r *runner, sc Scenario, wg *sync.WaitGroup) {
	idx := r.idx
	switch sc.Hazard {
	case "fd":
		// TLC (Proto_hz_fd.cfg) final state: c1 holds an open dictionary and has
		// requested RLock again (pc = fdn_rl, rd = 1); c2 is inside mutex.Lock()
		// (pc = cl_acq, wpend = {c2}). Neither can move.
		fdOpen := make(chan struct{})
		closePending := make(chan struct{})
		wg.Add(2)
		go func() { // c1
			defer wg.Done()
			var fdc interface{ Close() error }
			res := r.call(0, "fielddict", 0, 0, func() error {
				fd, err := idx.FieldDict("f")
				if err == nil {
					fdc = fd
				}
				return err
			})
			close(fdOpen)
			if res != "ok" {
				return
			}
			<-closePending
			r.arm()
			r.call(0, "doccount", 0, 0, func() error { _, err := idx.DocCount(); return err })
			r.call(0, "fdclose", 0, 0, func() error { return fdc.Close() })
		}()
		go func() { // c2
			defer wg.Done()
			<-fdOpen
			go func() {
				// Close is pending once its goroutine sits in RWMutex.Lock under indexImpl.Close
				waitBlocked("sync.RWMutex.Lock", 5*time.Minute, "(*indexImpl).Close")
				close(closePending)
			}()
			r.call(1, "close", 0, 0, idx.Close)
			close(r.closeRet)
		}()
	case "close2":
		// Regression detector for repair fb2d875. TLC (Proto_hz_close2.cfg, OLD Close): the second Close
		// reaches close(closeCh) on a closed channel. Repaired code: the second Close returns the
		// closed-index error.
		wg.Add(1)
		go func() {
			defer wg.Done()
			r.call(0, "close", 0, 0, idx.Close)
			r.arm()
			r.call(1, "close", 0, 0, idx.Close)
			r.call(1, "doccount", 0, 0, func() error { _, err := idx.DocCount(); return err })
			close(r.closeRet)
		}()
	case "fmmem":
		// Regression detector for repair 916db13. TLC (Proto_hz_fmmem.cfg, OLD ForceMerge): on an engine
		// without merger loop the request sits in the buffered channel and the caller waits for
		// doneCh / closeCh; cancelling its context changes nothing. Repaired code: an error at once.
		wg.Add(1)
		go func() {
			defer wg.Done()
			ctx, cancel := context.WithCancel(context.Background())
			returned := make(chan struct{})
			go func() {
				// either the call is seen blocked in its select (old behaviour) or it returns
				for {
					select {
					case <-returned:
						r.arm()
						return
					default:
					}
					if waitBlocked("select", 50*time.Millisecond, "(*Scorch).ForceMerge") {
						cancel()
						r.arm()
						return
					}
				}
			}()
			adv := r.adv
			r.call(0, "forcemerge", 1, 0, func() error { return adv.ForceMerge(ctx, nil) })
			close(returned)
			cancel()
			r.call(0, "close", 0, 0, idx.Close)
			close(r.closeRet)
		}()
	}
}
