package c11

import (
	"fmt"
	"os"
	"path/filepath"
	"strconv"
	"strings"
	"time"

	bleve "github.com/blevesearch/bleve/v2"
	"github.com/blevesearch/bleve/v2/index/scorch"

	"verif/harness/internal/core"
)

// A write fault inside the persister (the next segment file names are occupied by
// directories): the safe batch that waits for that persist round must come back - with the
// error - and Close must return ("Index ... and Close ... without deadlocks").
func persistFault(c *core.Ctx) error {
	dir := c.TempDir("c11pf")
	defer os.RemoveAll(dir)
	idx, err := bleve.NewUsing(filepath.Join(dir, "idx"), bleve.NewIndexMapping(), scorch.Name, scorch.Name, nil)
	if err != nil {
		return err
	}
	if err := idx.Index("a", map[string]interface{}{"t": "a"}); err != nil {
		return err
	}
	store := filepath.Join(dir, "idx", "store")
	max := uint64(0)
	ents, _ := os.ReadDir(store)
	for _, e := range ents {
		if strings.HasSuffix(e.Name(), ".zap") {
			if n, err := strconv.ParseUint(strings.TrimSuffix(e.Name(), ".zap"), 16, 64); err == nil && n > max {
				max = n
			}
		}
	}
	for k := uint64(1); k <= 8; k++ {
		d := filepath.Join(store, fmt.Sprintf("%012x.zap", max+k))
		_ = os.MkdirAll(filepath.Join(d, "occupied"), 0o755)
	}
	done := make(chan error, 1)
	go func() { done <- idx.Index("b", map[string]interface{}{"t": "b"}) }()
	var ierr error
	returned := true
	select {
	case ierr = <-done:
	case <-time.After(25 * time.Second):
		returned = false
	}
	c.Eval(1)
	if !returned {
		c.Violation("persist-fault:index-never-returns", "a safe Index call whose persist round failed (the segment file name is occupied by a directory) did not return within 25 s", map[string]any{"kind": "persist-fault"})
	}
	cdone := make(chan error, 1)
	go func() { cdone <- idx.Close() }()
	select {
	case <-cdone:
	case <-time.After(25 * time.Second):
		c.Violation("persist-fault:close-never-returns", fmt.Sprintf("Close did not return within 25 s after a failed persist round (the Index call returned: %v, error %v)", returned, ierr), map[string]any{"kind": "persist-fault"})
	}
	c.Distinct("persist-fault")
	return nil
}
