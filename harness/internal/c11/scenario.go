package c11

// The scenario runner: drives the REAL bleve code from many goroutines, with
// seeded schedule perturbation through scorch.VerifHook, and records every
// call/return (and the relevant hook points) as events. It runs inside a
// child process (see child.go) so that a hang can be examined and the process
// thrown away, and so that goroutine / fd censuses start from a clean slate.

import (
	"context"
	"errors"
	"expvar"
	"fmt"
	"math/rand"
	"os"
	"path/filepath"
	"runtime"
	"runtime/debug"
	"sort"
	"strings"
	"sync"
	"sync/atomic"
	"time"

	"github.com/blevesearch/bleve/v2"
	"github.com/blevesearch/bleve/v2/index/scorch"
	"github.com/blevesearch/bleve/v2/index/upsidedown"
	"github.com/blevesearch/bleve/v2/index/upsidedown/store/boltdb"
)

// Scenario describes one run. Everything that influences the run is here
// (the replay artefact of a violation is a Scenario).
type Scenario struct {
	ID        int    `json:"id"`
	Seed      int64  `json:"seed"`
	Engine    string `json:"engine"` // disk | mem | ud
	Unsafe    bool   `json:"unsafe"` // disk only: unsafe_batch
	Workers   int    `json:"workers"`
	Ops       int    `json:"ops"`      // calls per worker before it waits for Close
	Late      int    `json:"late"`     // calls per worker after Close returned
	Prepop    int    `json:"prepop"`   // documents indexed before the workers start
	Perturb   int    `json:"perturb"`  // 0 none, 1 light, 2 heavy (hook delays)
	CloseAt   string `json:"close_at"` // "ops:<n>" after n calls began | "gate:<point>:<k>" at the k-th hit of a hook point
	Close2    bool   `json:"close2"`   // a second goroutine calls Close at the same moment (one succeeds, one gets the closed-index error)
	Hazard    string `json:"hazard"`   // "" | fd | close2 | fmmem   (dedicated hazard scenarios)
	Dir       string `json:"dir"`      // scratch directory (disk index, copy targets)
	WatchdogS int    `json:"watchdog_s"`
}

// Event is one record of the trace validated by TLC (spec/trace/TraceProto.tla).
type Event struct {
	Sc   int    `json:"sc"`
	G    int    `json:"g"`
	Ev   string `json:"ev"` // b | e | h | leak | reset
	Op   string `json:"op"`
	Res  string `json:"res"`
	Ctx  int    `json:"ctx"`
	Ac   int    `json:"ac"`
	Role string `json:"role"`
	Pt   string `json:"pt"`
	N    int    `json:"n"`
	Seq  int64  `json:"seq"`
}

// Result of one scenario.
type Result struct {
	Scenario           Scenario `json:"scenario"`
	Events             []Event  `json:"events"`
	Calls              int      `json:"calls"`
	Panics             []string `json:"panics,omitempty"`     // recovered panics in client calls (with stack)
	AsyncErrs          []string `json:"async_errs,omitempty"` // scorch async error callback
	LoopPanic          []string `json:"loop_panic,omitempty"` // async errors that are recovered loop panics
	Leaks              []string `json:"leaks,omitempty"`      // leaked goroutines / fds (descriptions)
	Hang               *Hang    `json:"hang,omitempty"`
	Slow               bool     `json:"slow,omitempty"` // watchdog fired but the run completed once delays were released
	InFlightAtClose    []string `json:"inflight_at_close,omitempty"`
	MaxCancelLatencyUs int64    `json:"max_cancel_latency_us"`
	WallMs             int64    `json:"wall_ms"`
	Err                string   `json:"err,omitempty"` // machinery error (setup failed)
}

var (
	seqCtr    atomic.Int64
	hookState atomic.Pointer[hookCfg]
	asyncMu   sync.Mutex
	asyncErrs []string
)

const asyncCbName = "c11-async"

func init() {
	scorch.RegistryAsyncErrorCallbacks[asyncCbName] = func(err error, path string) {
		asyncMu.Lock()
		asyncErrs = append(asyncErrs, fmt.Sprintf("%v", err))
		asyncMu.Unlock()
	}
}

// hookCfg is the state the VerifHook callback works with during a scenario.
type hookCfg struct {
	rec        *recorder
	seed       uint64
	perturb    int
	released   atomic.Bool // all injected delays off (hang analysis / teardown)
	gatePoint  string
	gateK      int64
	gateHits   atomic.Int64
	gateFire   func()        // triggers the closer (idempotent)
	closeBegun chan struct{} // closed at hook close.begin
	cbOnce     sync.Once
	ctr        atomic.Uint64
}

type recorder struct {
	mu  sync.Mutex
	sc  int
	evs []Event
}

func (r *recorder) add(e Event) {
	e.Sc = r.sc
	e.Seq = seqCtr.Add(1)
	r.mu.Lock()
	r.evs = append(r.evs, e)
	r.mu.Unlock()
}

func splitmix(x uint64) uint64 {
	x += 0x9e3779b97f4a7c15
	x = (x ^ (x >> 30)) * 0xbf58476d1ce4e5b9
	x = (x ^ (x >> 27)) * 0x94d049bb133111eb
	return x ^ (x >> 31)
}

var clientPoints = map[string]bool{"batch.send": true, "batch.applied": true, "batch.persisted": true, "copy.open": true}

func hookRole(point string) string {
	switch {
	case point == "close.begin":
		return "closebegin"
	case point == "close.waited":
		return "closewaited"
	case clientPoints[point]:
		return "client"
	case strings.HasPrefix(point, "intro.") || strings.HasPrefix(point, "persist.") || strings.HasPrefix(point, "merge.") ||
		strings.HasPrefix(point, "memmerge.") || strings.HasPrefix(point, "purge."):
		return "loop"
	}
	return "" // copy.scheduled, copy.file, eligible, recovered: not part of the contract
}

// theHook is installed as scorch.VerifHook for the life of the child process.
func theHook(point string, s *scorch.Scorch, args ...interface{}) {
	h := hookState.Load()
	if h == nil {
		return
	}
	role := hookRole(point)
	if point == "persist.file" && len(args) > 0 {
		// prepareBoltSnapshot with a target directory runs inside CopyTo (a client call), not in the persister
		if toDir, ok := args[len(args)-1].(bool); ok && toDir {
			role = "client"
		}
	}
	if role != "" {
		h.rec.add(Event{G: 99, Ev: "h", Role: role, Pt: point})
	}
	if point == "close.begin" {
		h.cbOnce.Do(func() { close(h.closeBegun) })
	}
	if h.released.Load() {
		return
	}
	// gate-targeted Close: at the k-th hit of the chosen point start Close and
	// (loop side only - a client holds the read lock) hold this goroutine until
	// Close has closed closeCh, or 40ms, whichever comes first.
	if h.gatePoint == point {
		if h.gateHits.Add(1) == h.gateK {
			h.gateFire()
			if role == "loop" {
				select {
				case <-h.closeBegun:
				case <-time.After(40 * time.Millisecond):
				}
			}
			return
		}
	}
	if h.perturb == 0 {
		return
	}
	x := splitmix(h.seed ^ (h.ctr.Add(1) * 0x9e3779b97f4a7c15))
	mod := uint64(16)
	if h.perturb >= 2 {
		mod = 6
	}
	switch x % mod {
	case 0, 1:
		runtime.Gosched()
	case 2:
		time.Sleep(time.Duration(1+(x>>8)%60) * time.Microsecond)
	case 3:
		time.Sleep(time.Duration(50+(x>>8)%300) * time.Microsecond)
	}
}

func classify(err error) string {
	switch {
	case err == nil:
		return "ok"
	case err == bleve.ErrorIndexClosed:
		return "closed"
	case errors.Is(err, context.Canceled) || errors.Is(err, context.DeadlineExceeded):
		return "cancelled"
	}
	return "other"
}

type runner struct {
	sc           Scenario
	rec          *recorder
	idx          bleve.Index
	adv          *scorch.Scorch
	res          *Result
	mu           sync.Mutex // protects res.Panics, open-call table
	open         map[int]*openCall
	nBegun       atomic.Int64
	closeTrig    chan struct{}
	trigOnce     sync.Once
	closeRet     chan struct{}
	armed        chan struct{} // hazard scenarios: closed when the last step of the model schedule is about to be taken
	armOnce      sync.Once
	copyN        atomic.Int64
	maxCancelLat atomic.Int64
}

type openCall struct {
	op  string
	ctx int
	ac  int
}

func (r *runner) fireClose() { r.trigOnce.Do(func() { close(r.closeTrig) }) }
func (r *runner) arm()       { r.armOnce.Do(func() { close(r.armed) }) }

// call runs one API call on goroutine g with begin/end events and panic capture.
func (r *runner) call(g int, op string, ctxMode, ac int, f func() error) string {
	r.mu.Lock()
	r.open[g] = &openCall{op: op, ctx: ctxMode, ac: ac}
	r.mu.Unlock()
	r.rec.add(Event{G: g, Ev: "b", Op: op, Ctx: ctxMode, Ac: ac})
	res := func() (res string) {
		defer func() {
			if p := recover(); p != nil {
				res = "panic"
				r.mu.Lock()
				r.res.Panics = append(r.res.Panics, fmt.Sprintf("op=%s: %v\n%s", op, p, trimStack(debug.Stack())))
				r.mu.Unlock()
			}
		}()
		return classify(f())
	}()
	r.rec.add(Event{G: g, Ev: "e", Op: op, Res: res, Ctx: ctxMode, Ac: ac})
	r.mu.Lock()
	delete(r.open, g)
	r.res.Calls++
	r.mu.Unlock()
	return res
}

func trimStack(b []byte) string {
	s := string(b)
	if len(s) > 3000 {
		s = s[:3000]
	}
	return s
}

func doc(rng *rand.Rand) map[string]interface{} {
	words := []string{"a", "b", "c", "d", "e"}
	return map[string]interface{}{"f": "a " + words[rng.Intn(len(words))] + " " + words[rng.Intn(len(words))], "n": rng.Intn(100)}
}

func docID(rng *rand.Rand) string { return fmt.Sprintf("d%d", rng.Intn(400)) }

var lockOps = []string{"index", "delete", "batch", "search", "searchctx", "document", "doccount", "fielddict", "fields", "copyto"}

// oneOp performs one randomly chosen operation. late = after Close returned
// (only operations whose closed-index behaviour the contract fixes).
func (r *runner) oneOp(g int, rng *rand.Rand, late bool, forceAfterCancel bool) (cancelled bool) {
	r.nBegun.Add(1)
	if n, ok := closeAtOps(r.sc.CloseAt); ok && r.nBegun.Load() >= int64(n) {
		r.fireClose()
	}
	idx := r.idx
	if forceAfterCancel {
		r.call(g, "search", 0, 1, func() error {
			_, err := idx.Search(bleve.NewSearchRequest(bleve.NewMatchAllQuery()))
			return err
		})
		return false
	}
	type wop struct {
		name string
		w    int
	}
	menu := []wop{{"index", 10}, {"delete", 5}, {"batch", 10}, {"search", 10}, {"searchctx", 14}, {"document", 5},
		{"doccount", 6}, {"fielddict", 7}, {"fields", 3}, {"stats", 3}, {"statsmap", 3}, {"forcemerge", 5}, {"copyto", 3}}
	tot := 0
	for _, m := range menu {
		tot += m.w
	}
	pick := rng.Intn(tot)
	name := ""
	for _, m := range menu {
		if pick < m.w {
			name = m.name
			break
		}
		pick -= m.w
	}
	if name == "forcemerge" && r.adv == nil {
		name = "doccount" // upsidedown: Advanced() is not a scorch index
	}
	if late && name == "stats" {
		name = "close" // Close after Close: the closed-index error (repair fb2d875)
	}
	switch name {
	case "index":
		id, d := docID(rng), doc(rng)
		r.call(g, "index", 0, 0, func() error { return idx.Index(id, d) })
	case "delete":
		id := docID(rng)
		r.call(g, "delete", 0, 0, func() error { return idx.Delete(id) })
	case "batch":
		b := idx.NewBatch()
		for i, n := 0, 1+rng.Intn(6); i < n; i++ {
			if rng.Intn(4) == 0 {
				b.Delete(docID(rng))
			} else {
				_ = b.Index(docID(rng), doc(rng))
			}
		}
		r.call(g, "batch", 0, 0, func() error { return idx.Batch(b) })
	case "search":
		req := bleve.NewSearchRequest(bleve.NewMatchQuery("a"))
		req.Size = 5
		r.call(g, "search", 0, 0, func() error { _, err := idx.Search(req); return err })
	case "searchctx":
		req := bleve.NewSearchRequest(bleve.NewMatchAllQuery())
		req.Size = 3
		mode := rng.Intn(4)
		var ctx context.Context
		var cancel context.CancelFunc
		ctxMode := 1
		var cancelAt atomic.Int64
		switch mode {
		case 0: // cancelled while running
			ctx, cancel = context.WithCancel(context.Background())
			d := time.Duration(rng.Intn(400)) * time.Microsecond
			c2 := cancel
			time.AfterFunc(d, func() { cancelAt.Store(time.Now().UnixNano()); c2() })
		case 1: // deadline expiring while running
			d := time.Duration(1+rng.Intn(400)) * time.Microsecond
			ctx, cancel = context.WithTimeout(context.Background(), d)
			cancelAt.Store(time.Now().Add(d).UnixNano())
		case 2: // cancelled before the call
			ctx, cancel = context.WithCancel(context.Background())
			cancel()
			ctxMode = 2
			cancelAt.Store(time.Now().UnixNano())
		default: // deadline already passed
			ctx, cancel = context.WithDeadline(context.Background(), time.Now().Add(-time.Second))
			ctxMode = 2
			cancelAt.Store(time.Now().UnixNano())
		}
		res := r.call(g, "searchctx", ctxMode, 0, func() error { _, err := idx.SearchInContext(ctx, req); return err })
		end := time.Now().UnixNano()
		cancel()
		if res == "cancelled" {
			if at := cancelAt.Load(); at > 0 && end > at {
				lat := (end - at) / 1000
				for {
					old := r.maxCancelLat.Load()
					if lat <= old || r.maxCancelLat.CompareAndSwap(old, lat) {
						break
					}
				}
			}
			return true
		}
	case "document":
		id := docID(rng)
		r.call(g, "document", 0, 0, func() error { _, err := idx.Document(id); return err })
	case "doccount":
		r.call(g, "doccount", 0, 0, func() error { _, err := idx.DocCount(); return err })
	case "fields":
		r.call(g, "fields", 0, 0, func() error { _, err := idx.Fields(); return err })
	case "fielddict":
		r.fieldDict(g, rng, false)
	case "stats":
		r.call(g, "stats", 0, 0, func() error { _, err := idx.Stats().MarshalJSON(); return err })
	case "statsmap":
		if rng.Intn(2) == 0 {
			// the process-wide walk over all registered indexes (what a /debug/vars scrape does)
			r.call(g, "statsmap", 0, 0, func() error {
				if v := expvar.Get("bleve"); v != nil {
					_ = v.String()
				}
				return nil
			})
			break
		}
		r.call(g, "statsmap", 0, 0, func() error { _ = idx.StatsMap(); return nil })
	case "close":
		r.call(g, "close", 0, 0, idx.Close)
	case "forcemerge":
		ctx, cancel := context.WithCancel(context.Background())
		ctxMode := 0
		if rng.Intn(3) == 0 {
			ctxMode = 1
			time.AfterFunc(time.Duration(rng.Intn(300))*time.Microsecond, cancel)
		}
		adv := r.adv
		r.call(g, "forcemerge", ctxMode, 0, func() error { return adv.ForceMerge(ctx, nil) })
		cancel()
	case "copyto":
		dst := filepath.Join(r.sc.Dir, fmt.Sprintf("copy-%d", r.copyN.Add(1)))
		// every other backup is a burst: three more backups start at the same instant
		// (a backup scheduler firing several jobs) - their first steps overlap
		burst := 0
		if rng.Intn(2) == 0 {
			burst = 3
		}
		r.call(g, "copyto", 0, 0, func() error {
			ci, ok := idx.(bleve.IndexCopyable)
			if !ok {
				return fmt.Errorf("not copyable")
			}
			if burst == 0 {
				return ci.CopyTo(bleve.FileSystemDirectory(dst))
			}
			start := make(chan struct{})
			errs := make([]error, burst+1)
			pans := make([]interface{}, burst+1)
			var wg sync.WaitGroup
			for k := 0; k <= burst; k++ {
				wg.Add(1)
				go func(k int) {
					defer wg.Done()
					defer func() { pans[k] = recover() }()
					<-start
					errs[k] = ci.CopyTo(bleve.FileSystemDirectory(fmt.Sprintf("%s-b%d", dst, k)))
				}(k)
			}
			close(start)
			wg.Wait()
			for k := 0; k <= burst; k++ {
				_ = os.RemoveAll(fmt.Sprintf("%s-b%d", dst, k))
			}
			for _, p := range pans {
				if p != nil {
					panic(p)
				}
			}
			for _, e := range errs {
				if e != nil {
					return e
				}
			}
			return nil
		})
		_ = os.RemoveAll(dst)
	}
	return false
}

// fieldDict opens a dictionary, iterates a little and closes it promptly
// (nested = the hazard: another index method is called while it is open).
func (r *runner) fieldDict(g int, rng *rand.Rand, nested bool) {
	idx := r.idx
	var fdc interface {
		Close() error
	}
	var next func() error
	res := r.call(g, "fielddict", 0, 0, func() error {
		fd, err := idx.FieldDict("f")
		if err != nil {
			return err
		}
		fdc = fd
		next = func() error { _, e := fd.Next(); return e }
		return nil
	})
	if res != "ok" {
		return
	}
	for i, n := 0, rng.Intn(3); i < n; i++ {
		r.call(g, "fdnext", 0, 0, next)
	}
	if nested {
		r.call(g, "doccount", 0, 0, func() error { _, err := idx.DocCount(); return err })
	}
	r.call(g, "fdclose", 0, 0, func() error { return fdc.Close() })
}

func closeAtOps(s string) (int, bool) {
	var n int
	if _, err := fmt.Sscanf(s, "ops:%d", &n); err == nil {
		return n, true
	}
	return 0, false
}

func closeAtGate(s string) (string, int64, bool) {
	if !strings.HasPrefix(s, "gate:") {
		return "", 0, false
	}
	rest := s[5:]
	i := strings.LastIndex(rest, ":")
	if i < 0 {
		return rest, 1, true
	}
	var k int64 = 1
	fmt.Sscanf(rest[i+1:], "%d", &k)
	return rest[:i], k, true
}

func openIndex(sc Scenario) (bleve.Index, error) {
	m := bleve.NewIndexMapping()
	switch sc.Engine {
	case "disk":
		cfg := map[string]interface{}{"asyncErrorCallbackName": asyncCbName}
		if sc.Unsafe {
			cfg["unsafe_batch"] = true
		}
		return bleve.NewUsing(filepath.Join(sc.Dir, "idx"), m, scorch.Name, scorch.Name, cfg)
	case "mem":
		return bleve.NewUsing("", m, scorch.Name, scorch.Name, map[string]interface{}{"asyncErrorCallbackName": asyncCbName})
	case "ud":
		return bleve.NewUsing("", m, upsidedown.Name, "gtreap", nil)
	case "udbolt":
		// upsidedown over a KV store whose readers are transactions of a file
		return bleve.NewUsing(filepath.Join(sc.Dir, "idx"), m, upsidedown.Name, boltdb.Name, nil)
	}
	return nil, fmt.Errorf("unknown engine %q", sc.Engine)
}

// RunScenario executes one scenario. baseline = bleve goroutine signatures
// present before the index was created (process-global helpers).
func RunScenario(sc Scenario) *Result {
	start := time.Now()
	res := &Result{Scenario: sc}
	if sc.WatchdogS <= 0 {
		sc.WatchdogS = 120
	}
	rec := &recorder{sc: sc.ID}
	rec.add(Event{Ev: "reset"})
	asyncMu.Lock()
	asyncErrs = nil
	asyncMu.Unlock()
	if sc.Dir != "" {
		_ = os.MkdirAll(sc.Dir, 0o755)
	}
	baseline := bleveGoroutines(allStacks())

	r := &runner{sc: sc, rec: rec, res: res, open: map[int]*openCall{}, closeTrig: make(chan struct{}), closeRet: make(chan struct{}), armed: make(chan struct{})}
	h := &hookCfg{rec: rec, seed: splitmix(uint64(sc.Seed)), perturb: sc.Perturb, closeBegun: make(chan struct{}), gateFire: r.fireClose}
	if p, k, ok := closeAtGate(sc.CloseAt); ok {
		h.gatePoint, h.gateK = p, k
	}
	h.released.Store(true) // no perturbation while populating
	hookState.Store(h)
	defer hookState.Store(nil)

	allDone := make(chan struct{})
	setupErr := make(chan string, 1)
	closerG := sc.Workers
	const setupG = 97
	// Index creation and population run under the same watchdog as the workers
	// (creating a scorch index already performs a batch): they are recorded calls too.
	go func() {
		var idx bleve.Index
		var oerr error
		if r.call(setupG, "open", 0, 0, func() error { idx, oerr = openIndex(sc); return oerr }) != "ok" {
			setupErr <- fmt.Sprintf("open: %v", oerr)
			return
		}
		r.idx = idx
		if a, _ := idx.Advanced(); a != nil {
			if s, ok := a.(*scorch.Scorch); ok {
				r.adv = s
			}
		}
		prng := rand.New(rand.NewSource(sc.Seed))
		for done := 0; done < sc.Prepop; {
			b := idx.NewBatch()
			for i := 0; i < 400 && done < sc.Prepop; i++ {
				_ = b.Index(fmt.Sprintf("p%d", done), doc(prng))
				done++
			}
			var berr error
			if r.call(setupG, "batch", 0, 0, func() error { berr = idx.Batch(b); return berr }) != "ok" {
				setupErr <- fmt.Sprintf("prepopulate: %v", berr)
				return
			}
		}
		h.gateHits.Store(0)
		h.released.Store(false)

		var wg sync.WaitGroup
		budgetDone := make(chan struct{})
		var budgetWG sync.WaitGroup
		switch sc.Hazard {
		case "":
			for w := 0; w < sc.Workers; w++ {
				wg.Add(1)
				budgetWG.Add(1)
				go func(g int) {
					defer wg.Done()
					rng := rand.New(rand.NewSource(sc.Seed*1000003 + int64(g)*7919 + 1))
					ac := false
					for i := 0; i < sc.Ops; i++ {
						ac = r.oneOp(g, rng, false, ac)
					}
					budgetWG.Done()
					<-r.closeRet
					for i := 0; i < sc.Late; i++ {
						ac = r.oneOp(g, rng, true, ac)
					}
				}(w)
			}
			go func() { budgetWG.Wait(); close(budgetDone) }()
			// the closer(s): Close is called at the seeded moment, by one goroutine or by two at once
			nClosers := 1
			if sc.Close2 {
				nClosers = 2
			}
			var closersLeft atomic.Int32
			closersLeft.Store(int32(nClosers))
			var relOnce sync.Once
			for k := 0; k < nClosers; k++ {
				wg.Add(1)
				go func(k int) {
					defer wg.Done()
					select {
					case <-r.closeTrig:
					case <-budgetDone:
					}
					if k == 0 {
						r.mu.Lock()
						for _, oc := range r.open {
							if oc.op != "close" {
								res.InFlightAtClose = append(res.InFlightAtClose, oc.op)
							}
						}
						r.mu.Unlock()
						sort.Strings(res.InFlightAtClose)
					}
					cres := r.call(closerG+k, "close", 0, 0, idx.Close)
					// the workers' late calls start once a Close has succeeded (or, should none, when all closers are back)
					if cres == "ok" || closersLeft.Add(-1) == 0 {
						relOnce.Do(func() { close(r.closeRet) })
					}
				}(k)
			}
		default:
			runHazard(r, sc, &wg)
		}
		wg.Wait()
		close(allDone)
	}()

	watchdog := time.After(time.Duration(sc.WatchdogS) * time.Second)
	if sc.Hazard != "" {
		// The hazard schedules are sequenced by handshakes. The watchdog measures how long the FINAL
		// configuration of the model's counterexample persists, so its clock starts when the last
		// step is taken; getting there may take arbitrarily long on a busy machine.
		select {
		case <-r.armed:
		case <-allDone:
		case e := <-setupErr:
			res.Err = e
			return res
		case <-time.After(5 * time.Minute):
			res.Err = "hazard schedule could not be enacted within 5 minutes (machine too slow?)"
			return res
		}
		watchdog = time.After(time.Duration(sc.WatchdogS) * time.Second)
	}
	select {
	case <-allDone:
	case e := <-setupErr:
		res.Err = e
		return res
	case <-watchdog:
		// watchdog: release every injected delay and apply the deadlock rule
		h.released.Store(true)
		select {
		case <-allDone:
			res.Slow = true
		case <-time.After(5 * time.Second):
			res.Hang = analyseHang(4 * time.Second)
			select {
			case <-allDone: // finished while we were looking: not a hang
				res.Hang = nil
				res.Slow = true
			default:
			}
		}
	}
	h.released.Store(true)

	if res.Hang != nil {
		r.mu.Lock()
		nOpen := len(r.open)
		r.mu.Unlock()
		if nOpen == 0 {
			res.Hang = nil
			res.Err = "watchdog fired although no API call was in flight (harness stall)"
			return res
		}
	}
	if res.Hang != nil {
		// calls that never returned are recorded with result class "hang"
		r.mu.Lock()
		gs := make([]int, 0, len(r.open))
		for g := range r.open {
			gs = append(gs, g)
		}
		sort.Ints(gs)
		for _, g := range gs {
			oc := r.open[g]
			res.Hang.StuckCalls = append(res.Hang.StuckCalls, oc.op)
			rec.add(Event{G: g, Ev: "e", Op: oc.op, Res: "hang", Ctx: oc.ctx, Ac: oc.ac})
		}
		r.mu.Unlock()
	} else {
		// censuses after Close returned and every call ended
		leaks := census(baseline, sc)
		res.Leaks = leaks
		rec.add(Event{G: closerG, Ev: "leak", Op: "census", N: len(leaks)})
	}
	asyncMu.Lock()
	for _, e := range asyncErrs {
		if strings.Contains(e, "panic") {
			res.LoopPanic = append(res.LoopPanic, e)
		} else {
			res.AsyncErrs = append(res.AsyncErrs, e)
		}
	}
	asyncMu.Unlock()
	if len(res.LoopPanic) > 0 {
		// a recovered panic of a background loop is a panic of the index
		rec.add(Event{G: 98, Ev: "b", Op: "stats"})
		rec.add(Event{G: 98, Ev: "e", Op: "stats", Res: "panic"})
	}
	rec.mu.Lock()
	evs := append([]Event(nil), rec.evs...)
	rec.mu.Unlock()
	sort.Slice(evs, func(i, j int) bool { return evs[i].Seq < evs[j].Seq })
	res.Events = evs
	res.MaxCancelLatencyUs = r.maxCancelLat.Load()
	res.WallMs = time.Since(start).Milliseconds()
	if sc.Dir != "" && res.Hang == nil {
		_ = os.RemoveAll(sc.Dir)
	}
	return res
}

// census: after Close, no goroutine with bleve frames beyond the baseline, no
// fd and no mapping under the index directory. Goroutines that are merely on
// their way out (e.g. `go AddEligibleForRemoval`) get time to finish.
func census(baseline map[string]int, sc Scenario) []string {
	var leaks []string
	deadline := time.Now().Add(20 * time.Second)
	for {
		leaks = leaks[:0]
		cur := bleveGoroutines(allStacks())
		for sig, n := range cur {
			if n > baseline[sig] {
				leaks = append(leaks, fmt.Sprintf("goroutine x%d: %s", n-baseline[sig], sig))
			}
		}
		if sc.Engine == "disk" {
			leaks = append(leaks, openUnder(filepath.Join(sc.Dir, "idx"))...)
		}
		if len(leaks) == 0 || time.Now().After(deadline) {
			break
		}
		time.Sleep(20 * time.Millisecond)
	}
	sort.Strings(leaks)
	return leaks
}

func openUnder(dir string) []string {
	var out []string
	ents, _ := os.ReadDir("/proc/self/fd")
	for _, e := range ents {
		if t, err := os.Readlink("/proc/self/fd/" + e.Name()); err == nil && strings.HasPrefix(t, dir) {
			out = append(out, "fd -> "+strings.TrimPrefix(t, dir))
		}
	}
	if b, err := os.ReadFile("/proc/self/maps"); err == nil {
		seen := map[string]bool{}
		for _, ln := range strings.Split(string(b), "\n") {
			if i := strings.Index(ln, dir); i >= 0 {
				f := strings.TrimPrefix(ln[i:], dir)
				if !seen[f] {
					seen[f] = true
					out = append(out, "mmap -> "+f)
				}
			}
		}
	}
	return out
}
