package c11

// Race detector run (exploration-level evidence): the same child program,
// built with -race by /verif/bin/build-race, runs a bounded share of the
// stress scenarios; "WARNING: DATA RACE" reports whose stacks contain bleve
// frames are violations with signature = the innermost bleve frames.

import (
	"fmt"
	"os"
	"os/exec"
	"sort"
	"strings"
	"time"

	"verif/harness/internal/core"
)

type raceReport struct {
	Sig  string
	Text string
}

// parseRaces extracts the race reports that involve bleve code.
func parseRaces(out string) []raceReport {
	var rv []raceReport
	seen := map[string]bool{}
	for _, blk := range strings.Split(out, "==================") {
		if !strings.Contains(blk, "WARNING: DATA RACE") {
			continue
		}
		// innermost bleve/v2 function of each access stack (the stacks before "Goroutine N ... created at")
		var tops []string
		for _, sec := range strings.Split(blk, "\n\n") {
			first := strings.TrimSpace(strings.SplitN(strings.TrimSpace(sec), "\n", 2)[0])
			if !(strings.HasPrefix(first, "Read at") || strings.HasPrefix(first, "Write at") ||
				strings.HasPrefix(first, "Previous read at") || strings.HasPrefix(first, "Previous write at") ||
				strings.HasPrefix(first, "WARNING: DATA RACE")) {
				continue
			}
			for _, ln := range strings.Split(sec, "\n") {
				t := strings.TrimSpace(ln)
				if strings.HasPrefix(t, blevePath) {
					fn := strings.TrimPrefix(t, blevePath)
					if i := strings.LastIndex(fn, "("); i > 0 {
						fn = fn[:i]
					}
					tops = append(tops, fn)
					break
				}
			}
		}
		if len(tops) == 0 {
			continue // a race without bleve frames would be the harness's own business
		}
		sort.Strings(tops)
		sig := "race:" + strings.Join(tops, "|")
		if !seen[sig] {
			seen[sig] = true
			if len(blk) > 6000 {
				blk = blk[:6000]
			}
			rv = append(rv, raceReport{sig, blk})
		}
	}
	return rv
}

func runRace(c *core.Ctx) {
	if os.Getenv("VERIF_C11_NORACE") != "" {
		c.Extra("race_detector", "skipped (VERIF_C11_NORACE)")
		return
	}
	t0 := time.Now()
	cmd := exec.Command("/verif/bin/build-race", "C11")
	cmd.Env = os.Environ()
	ob, err := cmd.Output()
	bin := strings.TrimSpace(string(ob))
	if err != nil || bin == "" {
		msg := ""
		if ee, ok := err.(*exec.ExitError); ok {
			msg = tail(string(ee.Stderr), 600)
		}
		c.Inconclusive(fmt.Sprintf("race build failed: %v %s", err, msg))
		return
	}
	buildS := time.Since(t0).Seconds()
	n := c.Pick(6, 40)
	scs := makeRaceScenarios(c, n)
	a := &agg{resCount: map[string]int{}}
	var mu = &a.mu
	var reports []raceReport
	// children of the race binary; collect stderr
	par := c.Pick(3, 4)
	jobs := make(chan []Scenario, len(scs))
	for i := 0; i < len(scs); i += 2 {
		j := min(i+2, len(scs))
		jobs <- append([]Scenario(nil), scs[i:j]...)
	}
	close(jobs)
	done := make(chan struct{})
	ran := 0
	for w := 0; w < par; w++ {
		go func() {
			for job := range jobs {
				co := runChild(c, bin, job, time.Duration(len(job))*400*time.Second+2*time.Minute, "GORACE=halt_on_error=0 history_size=3")
				rs := parseRaces(co.stderr)
				mu.Lock()
				reports = append(reports, rs...)
				ran += len(co.results)
				if co.err != nil {
					a.machine = append(a.machine, "race child: "+co.err.Error())
				}
				for _, r := range co.results {
					if r.Hang != nil {
						// a hang under the race detector alone is not judged here (10x slowdown): note it
						a.machine = append(a.machine, fmt.Sprintf("race child scenario %d did not finish within its watchdog", r.Scenario.ID))
					}
				}
				mu.Unlock()
			}
			done <- struct{}{}
		}()
	}
	for w := 0; w < par; w++ {
		<-done
	}
	seen := map[string]bool{}
	for _, r := range reports {
		if seen[r.Sig] {
			continue
		}
		seen[r.Sig] = true
		c.Violation(r.Sig, "data race reported by the Go race detector in bleve code (exploration-level evidence): "+r.Sig,
			map[string]any{"report": r.Text})
	}
	if ran == 0 {
		c.Inconclusive("race run produced no scenario result: " + strings.Join(a.machine, " | "))
	}
	c.Extra("race_detector", map[string]any{"scenarios": ran, "build_s": buildS, "wall_s": time.Since(t0).Seconds(), "reports_with_bleve_frames": len(seen)})
	c.Logf("race detector: %d scenarios, %d distinct reports with bleve frames, %.1fs (build %.1fs)", ran, len(seen), time.Since(t0).Seconds(), buildS)
}

func makeRaceScenarios(c *core.Ctx, n int) []Scenario {
	scs := makeScenarios(c, n)
	for i := range scs {
		scs[i].ID = 5000 + i
		scs[i].Seed += 77
		scs[i].Prepop = 300 // the detector slows everything ~10x
		// long concurrent phase, Close late: races need overlapping accesses, not many scenarios
		scs[i].Workers = 6 + c.Rand.Intn(3)
		scs[i].Ops = 16 + c.Rand.Intn(10)
		total := scs[i].Workers * scs[i].Ops
		if !strings.HasPrefix(scs[i].CloseAt, "gate:") || i%2 == 0 {
			scs[i].CloseAt = fmt.Sprintf("ops:%d", total*6/10+c.Rand.Intn(total*4/10))
		}
		scs[i].WatchdogS = 600
	}
	return scs
}
