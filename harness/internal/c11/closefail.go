package c11

import (
	"errors"
	"fmt"
	"sync/atomic"
	"time"

	bleve "github.com/blevesearch/bleve/v2"
	"github.com/blevesearch/bleve/v2/index/upsidedown"
	_ "github.com/blevesearch/bleve/v2/index/upsidedown/store/gtreap"
	"github.com/blevesearch/bleve/v2/registry"
	store "github.com/blevesearch/upsidedown_store_api"

	"verif/harness/internal/core"
)

// "every call made after Close returns the closed-index error" - also when the
// engine's own Close reported an error (a KV store that fails to release
// something): the index was torn down all the same.

const closeFailStore = "c11-closefail"

type closeFailKV struct {
	store.KVStore
	closes *int64
	uses   *int64
}

func (k *closeFailKV) Close() error {
	atomic.AddInt64(k.closes, 1)
	_ = k.KVStore.Close()
	return errors.New("injected: the store could not release its lock file")
}

func (k *closeFailKV) Reader() (store.KVReader, error) {
	if atomic.LoadInt64(k.closes) > 0 {
		atomic.AddInt64(k.uses, 1)
	}
	return k.KVStore.Reader()
}

func (k *closeFailKV) Writer() (store.KVWriter, error) {
	if atomic.LoadInt64(k.closes) > 0 {
		atomic.AddInt64(k.uses, 1)
	}
	return k.KVStore.Writer()
}

var closeFailCloses, closeFailUses int64

func init() {
	_ = registry.RegisterKVStore(closeFailStore, func(mo store.MergeOperator, config map[string]interface{}) (store.KVStore, error) {
		inner, err := registry.KVStoreConstructorByName("gtreap")(mo, map[string]interface{}{"path": ""})
		if err != nil {
			return nil, err
		}
		return &closeFailKV{KVStore: inner, closes: &closeFailCloses, uses: &closeFailUses}, nil
	})
}

func closeFails(c *core.Ctx) error {
	atomic.StoreInt64(&closeFailCloses, 0)
	atomic.StoreInt64(&closeFailUses, 0)
	idx, err := bleve.NewUsing("", bleve.NewIndexMapping(), upsidedown.Name, closeFailStore, nil)
	if err != nil {
		return err
	}
	for i := 0; i < 5; i++ {
		if err := idx.Index(fmt.Sprintf("d%d", i), map[string]interface{}{"t": "a b"}); err != nil {
			return err
		}
	}
	cerr := idx.Close()
	if cerr == nil {
		return fmt.Errorf("close-fails: the injected Close error was not reported")
	}
	calls := map[string]func() error{
		"DocCount":  func() error { _, err := idx.DocCount(); return err },
		"Search":    func() error { _, err := idx.Search(bleve.NewSearchRequest(bleve.NewMatchAllQuery())); return err },
		"Document":  func() error { _, err := idx.Document("d1"); return err },
		"Index":     func() error { return idx.Index("x", map[string]interface{}{"t": "a"}) },
		"Delete":    func() error { return idx.Delete("d1") },
		"Batch":     func() error { b := idx.NewBatch(); b.Delete("d2"); return idx.Batch(b) },
		"FieldDict": func() error { _, err := idx.FieldDict("t"); return err },
		"Fields":    func() error { _, err := idx.Fields(); return err },
		"Close":     func() error { return idx.Close() },
	}
	var wrong []string
	for _, name := range []string{"DocCount", "Search", "Document", "Index", "Delete", "Batch", "FieldDict", "Fields", "Close"} {
		var err error
		done := make(chan error, 1)
		go func(f func() error) {
			defer func() {
				if p := recover(); p != nil {
					done <- fmt.Errorf("panic: %v", p)
				}
			}()
			done <- f()
		}(calls[name])
		select {
		case err = <-done:
		case <-time.After(10 * time.Second):
			err = fmt.Errorf("no answer within 10 s")
			wrong = append(wrong, fmt.Sprintf("%s -> %v", name, err))
			c.Eval(1)
			goto report // the remaining calls would queue up behind the stuck one
		}
		c.Eval(1)
		if err != bleve.ErrorIndexClosed {
			wrong = append(wrong, fmt.Sprintf("%s -> %v", name, err))
		}
	}
report:
	if len(wrong) > 0 {
		c.Violation("call-after-failed-close", fmt.Sprintf("upsidedown index whose KV store reports an error from Close (%v): calls made after that Close do not return the closed-index error: %v; the store was used %d time(s) after its Close and closed %d time(s)",
			cerr, wrong, atomic.LoadInt64(&closeFailUses), atomic.LoadInt64(&closeFailCloses)), map[string]any{"kind": "close-fails", "wrong": wrong})
	}
	c.Distinct("close-fails")
	return nil
}
