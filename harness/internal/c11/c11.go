// Package c11 checks property C11: "The index API is safe under arbitrary
// concurrent use and Close always completes".
//
//   - the model decides: spec/Proto.tla (index RW lock with writer preference,
//     open flag, FieldDict, Close, prepareSegment, introducer / persister /
//     merger loops, ForceMerge; one action per channel operation / select arm /
//     lock operation) is model-checked by TLC: deadlock freedom, the safety
//     invariants, the observable contract ProtoObs, and (FairSpec) liveness.
//   - the code is bound: seeded stress of the real code on three engines in
//     child processes with schedule perturbation through scorch.VerifHook and
//     Close injected at every named gate; the call/return/hook events are
//     validated by TLC against spec/trace/TraceProto.tla (= ProtoObs on real
//     observations); hangs are judged by the deadlock rule of DESIGN §3.4;
//     the hazards the model exhibits in Proto_hz_*.cfg are re-enacted on the
//     real code following TLC's counterexamples.
//   - data races: a -race build of the same child (exploration level).
package c11

import (
	"encoding/json"
	"fmt"
	"os"
	"os/exec"
	"path/filepath"
	"sort"
	"strings"
	"sync"
	"time"

	"verif/harness/internal/core"
	"verif/harness/internal/tlc"
)

func init() {
	core.Register(&core.Check{Prop: "C11", Level: "model_checking", Run: run, Replay: replay})
}

// hook points of the background loops at which Close is injected ("gates")
var loopGates = []string{
	"intro.segment", "intro.persist", "intro.merge",
	"persist.take", "persist.begin", "persist.file", "persist.filesWritten", "persist.beforeIntro", "persist.introduced",
	"persist.beforeCommit", "persist.committed", "persist.synced", "persist.unmarked", "persist.done", "persist.acked",
	"merge.take", "merge.plan", "merge.marked", "merge.written", "merge.beforeIntro", "merge.introduced", "merge.done", "merge.cleanup",
	"memmerge.marked", "memmerge.written", "memmerge.beforeIntro", "memmerge.introduced", "memmerge.equiv",
	"purge.begin", "purge.bolt.plan", "purge.bolt.done", "purge.zap.before", "purge.zap", "purge.end",
}
var clientGates = []string{"batch.send", "batch.applied", "batch.persisted", "copy.open"}

func makeScenarios(c *core.Ctx, n int) []Scenario {
	var out []Scenario
	engines := []string{"disk", "mem", "ud"}
	gates := append(append([]string{}, loopGates...), clientGates...)
	gi := c.Rand.Intn(len(gates))
	for i := 0; i < n; i++ {
		eng := engines[i%3]
		if i%9 >= 6 { // disk gets a larger share: it is the engine with background loops
			eng = "disk"
		}
		if i%9 == 5 { // upsidedown over boltdb (file-backed KV readers) instead of gtreap
			eng = "udbolt"
		}
		sc := Scenario{
			ID: i, Seed: c.Seed*1_000_003 + int64(i), Engine: eng,
			Workers: 3 + c.Rand.Intn(6), Ops: 4 + c.Rand.Intn(14), Late: 2,
			Prepop: 1100 + c.Rand.Intn(900), Perturb: c.Rand.Intn(3), WatchdogS: 90,
		}
		if eng == "ud" {
			sc.Prepop = 1100 + c.Rand.Intn(200)
		}
		if eng == "udbolt" {
			sc.Prepop = 300 + c.Rand.Intn(100)
		}
		if eng == "disk" && c.Rand.Intn(4) == 0 {
			sc.Unsafe = true
		}
		sc.Close2 = c.Rand.Intn(3) == 0
		total := sc.Workers * sc.Ops
		switch {
		case eng == "disk" && c.Rand.Intn(2) == 0:
			// Close injected at a gate: every named point is used in turn
			sc.CloseAt = fmt.Sprintf("gate:%s:%d", gates[gi%len(gates)], 1+c.Rand.Intn(4))
			gi++
		case eng == "mem" && c.Rand.Intn(3) == 0:
			g := []string{"intro.segment", "batch.send", "batch.applied"}
			sc.CloseAt = fmt.Sprintf("gate:%s:%d", g[c.Rand.Intn(len(g))], 1+c.Rand.Intn(6))
		default:
			sc.CloseAt = fmt.Sprintf("ops:%d", 1+c.Rand.Intn(total))
		}
		out = append(out, sc)
	}
	return out
}

type childOut struct {
	results []*Result
	exit    int
	stderr  string
	err     error
}

// runChild executes scenarios in one child process of binary bin.
func runChild(c *core.Ctx, bin string, scs []Scenario, timeout time.Duration, env ...string) childOut {
	dir := c.TempDir("child")
	for i := range scs {
		scs[i].Dir = filepath.Join(dir, fmt.Sprintf("s%d", scs[i].ID))
	}
	in := filepath.Join(dir, "in.json")
	outp := filepath.Join(dir, "out.json")
	b, _ := json.Marshal(scs)
	if err := os.WriteFile(in, b, 0o644); err != nil {
		return childOut{err: err}
	}
	cmd := exec.Command(bin, "child:c11", in, outp)
	cmd.Env = append(os.Environ(), env...)
	var errb strings.Builder
	cmd.Stderr = &errb
	cmd.Stdout = &errb
	if err := cmd.Start(); err != nil {
		return childOut{err: err}
	}
	done := make(chan error, 1)
	go func() { done <- cmd.Wait() }()
	var co childOut
	select {
	case err := <-done:
		if ee, ok := err.(*exec.ExitError); ok {
			co.exit = ee.ExitCode()
		} else if err != nil {
			co.err = err
		}
	case <-time.After(timeout):
		_ = cmd.Process.Kill()
		<-done
		co.err = fmt.Errorf("child timed out after %s", timeout)
	}
	co.stderr = errb.String()
	if ob, err := os.ReadFile(outp); err == nil {
		_ = json.Unmarshal(ob, &co.results)
	}
	if co.exit != 3 { // after a hang the index directory is evidence; otherwise clean up
		_ = os.RemoveAll(dir)
	}
	return co
}

type agg struct {
	mu       sync.Mutex
	results  []*Result
	calls    int
	hangs    []*Result
	machine  []string
	resCount map[string]int
	stop     bool // a hang candidate was seen: do not start further scenarios (they would mostly hang too)
	skipped  int
}

// runAll distributes scenarios over parallel children; scenarios a child did
// not reach (it stopped at a hang) are re-dispatched.
func runAll(c *core.Ctx, bin string, scs []Scenario, par, chunk int, a *agg) {
	queue := make(chan []Scenario, len(scs)+8)
	var pending sync.WaitGroup
	push := func(s []Scenario) {
		if len(s) > 0 {
			pending.Add(1)
			queue <- s
		}
	}
	for i := 0; i < len(scs); i += chunk {
		j := i + chunk
		if j > len(scs) {
			j = len(scs)
		}
		push(append([]Scenario(nil), scs[i:j]...))
	}
	go func() { pending.Wait(); close(queue) }()
	var wg sync.WaitGroup
	for w := 0; w < par; w++ {
		wg.Add(1)
		go func() {
			defer wg.Done()
			for job := range queue {
				a.mu.Lock()
				if a.stop {
					a.skipped += len(job)
					a.mu.Unlock()
					pending.Done()
					continue
				}
				a.mu.Unlock()
				to := time.Duration(len(job))*200*time.Second + 2*time.Minute
				co := runChild(c, bin, job, to)
				a.mu.Lock()
				for _, r := range co.results {
					a.results = append(a.results, r)
					if r.Hang != nil {
						a.hangs = append(a.hangs, r)
						a.stop = true
					}
					if r.Err != "" {
						a.machine = append(a.machine, fmt.Sprintf("scenario %d: %s", r.Scenario.ID, r.Err))
					}
				}
				if co.err != nil {
					a.machine = append(a.machine, co.err.Error())
				} else if co.exit != 0 && co.exit != 3 {
					a.machine = append(a.machine, fmt.Sprintf("child exit %d: %s", co.exit, tail(co.stderr, 1500)))
				}
				a.mu.Unlock()
				if co.exit == 3 && len(co.results) < len(job) {
					push(append([]Scenario(nil), job[len(co.results):]...))
				}
				pending.Done()
			}
		}()
	}
	wg.Wait()
}

func tail(s string, n int) string {
	if len(s) > n {
		return s[len(s)-n:]
	}
	return s
}

// ---- model runs

type modelJob struct {
	module, cfg string
	workers     int
	timeout     time.Duration
}

func runModels(c *core.Ctx, jobs []modelJob, par int) {
	sem := make(chan struct{}, par)
	var wg sync.WaitGroup
	for _, j := range jobs {
		wg.Add(1)
		sem <- struct{}{}
		go func(j modelJob) {
			defer wg.Done()
			defer func() { <-sem }()
			c.ModelCheck(j.module, j.cfg, core.Workers(j.workers), core.Timeout(j.timeout))
		}(j)
	}
	wg.Wait()
}

// hazardModel runs a Proto_hz_*.cfg and checks that TLC finds the expected
// counterexample (its kind and the final program counters of the clients).
// Returns the action sequence of the counterexample.
func hazardModel(c *core.Ctx, cfg, wantViolated string, wantPCs []string) ([]string, bool) {
	res, err := c.RunTLC("hazard-exhaustive", "Proto", cfg, core.Workers(2), core.Timeout(10*time.Minute))
	if err != nil {
		c.Inconclusive(fmt.Sprintf("TLC Proto/%s: %v", cfg, err))
		return nil, false
	}
	if res.Violated != wantViolated || len(res.CounterEx) == 0 {
		c.Inconclusive(fmt.Sprintf("TLC Proto/%s: expected counterexample %q, got %q (the hazard model no longer exhibits the hazard)", cfg, wantViolated, res.Violated))
		return nil, false
	}
	last := res.CounterEx[len(res.CounterEx)-1].State
	pcs := fmt.Sprint(last["pc"])
	for _, w := range wantPCs {
		if !strings.Contains(pcs, w) {
			c.Inconclusive(fmt.Sprintf("TLC Proto/%s: final state pc=%s lacks %q", cfg, pcs, w))
			return nil, false
		}
	}
	var acts []string
	for _, st := range res.CounterEx {
		a := st.Action
		if i := strings.Index(a, " line "); i > 0 {
			a = a[:i]
		}
		acts = append(acts, a)
	}
	c.Logf("hazard model %s: TLC counterexample %s, %d steps, final pc=%s", cfg, wantViolated, len(acts), pcs)
	return acts, true
}

// ---- trace validation

func eventsAny(evs []Event) []any {
	out := make([]any, len(evs))
	for i := range evs {
		e := evs[i]
		e.Seq = 0 // order is positional; keep the numbers out of TLC (32-bit ints)
		out[i] = e
	}
	return out
}

// validateResults feeds the events of the given results to TLC, several
// scenarios per TLC run; a rejected scenario is reported and dropped, then
// the rest is validated again.
func validateResults(c *core.Ctx, rs []*Result, report func(r *Result, inv string, ev Event)) error {
	const maxEvents = 30000
	rejected := 0
	for i := 0; i < len(rs); {
		var batch []*Result
		n := 0
		for i < len(rs) && (len(batch) == 0 || n+len(rs[i].Events) <= maxEvents) {
			batch = append(batch, rs[i])
			n += len(rs[i].Events)
			i++
		}
		for round := 0; len(batch) > 0 && round < 12; round++ {
			var evs []Event
			var owner []int
			for bi, r := range batch {
				for _, e := range r.Events {
					evs = append(evs, e)
					owner = append(owner, bi)
				}
			}
			tf, err := c.ValidateTrace("TraceProto", "TraceProto.cfg", eventsAny(evs), core.Timeout(20*time.Minute))
			if err != nil {
				return err
			}
			c.Traces(len(batch))
			if tf == nil {
				break
			}
			// invariants are evaluated on the state reached after consuming l-1
			// records: the offending record is number l-1 (1-based)
			k := tf.Line - 2
			if tf.Invariant == "" || k < 0 || k >= len(evs) {
				return fmt.Errorf("TraceProto rejected a trace without naming a record: %s", tf.Text)
			}
			c.Traces(-1) // the rejected scenario is not "validated"
			bad := owner[k]
			report(batch[bad], tf.Invariant, evs[k])
			batch = append(batch[:bad], batch[bad+1:]...)
			if rejected++; rejected >= 8 {
				// enough rejections to report; the remaining scenarios of this batch stay unvalidated
				c.Traces(-len(batch))
				c.Extra("trace_validation_stopped_after_rejections", rejected)
				return nil
			}
		}
	}
	return nil
}

// judgeSelfTest: TLC must accept a small genuine trace and reject it once one
// post-Close result is flipped from "closed" to "ok" (non-vacuity of the judge).
func judgeSelfTest(c *core.Ctx, r *Result) error {
	evs := append([]Event(nil), r.Events...)
	closeEnd := -1
	for i, e := range evs {
		if e.Ev == "e" && e.Op == "close" && e.Res == "ok" {
			closeEnd = i
		}
	}
	flip := -1
	began := map[int]bool{}
	for i := closeEnd + 1; closeEnd >= 0 && i < len(evs); i++ {
		e := evs[i]
		if e.Ev == "b" {
			began[e.G] = true
		}
		if e.Ev == "e" && e.Res == "closed" && began[e.G] {
			flip = i
			break
		}
	}
	if flip < 0 {
		return fmt.Errorf("judge self-test: no post-Close call in scenario %d", r.Scenario.ID)
	}
	evs[flip].Res = "ok"
	tf, err := c.ValidateTrace("TraceProto", "TraceProto.cfg", eventsAny(evs))
	if err != nil {
		return err
	}
	if tf == nil || tf.Invariant != "AfterCloseClosed" {
		return fmt.Errorf("judge self-test: corrupted trace (post-Close call returning ok) was not rejected by AfterCloseClosed: %+v", tf)
	}
	return nil
}

func run(c *core.Ctx) error {
	self := core.SelfExe()
	c.SetExhaustive(false)
	c.SetRule("one distinct case per (engine, Close trigger kind and gate, sorted set of operations in flight when Close was called, perturbation level); trivial = nothing in flight at Close")
	c.Assume("Proto.tla abstracts data away: segment/bolt I/O errors and introduceSegment's DocNumbers error path are not modelled")
	c.Assume("usage quantified over: FieldDict is closed by the goroutine that opened it without calling other index methods in between; (the excluded usage - another index method called while a dictionary is open - is the hazard configuration Proto_hz_fd.cfg, an OPEN known finding). Close may be called any number of times, also concurrently; ForceMerge on any scorch index. The two repaired defects (second Close, ForceMerge without merger loop) stay as regression detectors: the old behaviour is a constant switch of Proto.tla whose TLC counterexample is enacted on the real code on every run")
	c.Assume("weak fairness of every loop and of every goroutine inside a call (liveness); Go's select is modelled as a non-deterministic choice among ready arms")
	c.Assume("data-race freedom is exploration-level evidence (race detector on executed schedules), not part of the model")

	// ---------------- 0. cancellation in the middle of the collection (CancelSearch.tla)
	if _, ok := c.ModelCheck("CancelSearch", "CancelSearch_mc.cfg", core.Workers(1), core.Timeout(5*time.Minute)); ok {
		if err := cancelMidCollection(c); err != nil {
			return err
		}
	}

	// ---------------- 0b. readers against a fast writer, in a process of its own
	runStorm(c)

	// ---------------- 0c'. a write fault inside the persister
	if err := persistFault(c); err != nil {
		return err
	}
	// ---------------- 0c. Close that reports an error still closes
	if err := closeFails(c); err != nil {
		return err
	}

	// ---------------- 1. the model decides (in parallel with the stress)
	// VERIF_C11_DEV=stress is a development aid (mutant trials): only the stress + trace validation
	if os.Getenv("VERIF_C11_DEV") == "race" { // development aid: only the race-detector part
		runRace(c)
		c.Inconclusive("VERIF_C11_DEV=race: only the race detector part was run (development run)")
		return nil
	}
	devStress := os.Getenv("VERIF_C11_DEV") == "stress"
	var modelWG sync.WaitGroup
	modelWG.Add(1)
	go func() {
		defer modelWG.Done()
		if devStress {
			return
		}
		jobs := []modelJob{
			{"Proto", "Proto_mc_quick.cfg", 6, 30 * time.Minute},
			{"Proto", "Proto_live_quick.cfg", 2, 30 * time.Minute},
			{"Proto", "Proto_live_quick2.cfg", 2, 30 * time.Minute},
			{"Proto", "Proto_mc_mem.cfg", 1, 20 * time.Minute},
			{"Proto", "Proto_mc_ud.cfg", 1, 20 * time.Minute},
		}
		if c.Thorough() {
			jobs = append(jobs,
				modelJob{"Proto", "Proto_mc_slow.cfg", 4, 120 * time.Minute},
				modelJob{"Proto", "Proto_mc_thorough.cfg", 8, 180 * time.Minute},
				modelJob{"Proto", "Proto_live_thorough.cfg", 3, 180 * time.Minute},
			)
		}
		runModels(c, jobs, 3)
	}()

	// ---------------- 2. seeded stress of the real code
	nSc := c.Pick(72, 600)
	scs := makeScenarios(c, nSc)
	a := &agg{resCount: map[string]int{}}
	t0 := time.Now()
	// ---------------- 3. hazards the model exhibits, re-enacted on the real code (concurrently)
	var hzWG sync.WaitGroup
	hzWG.Add(1)
	go func() {
		defer hzWG.Done()
		if !devStress {
			runHazards(c, self)
		}
	}()

	runAll(c, self, scs, c.Pick(5, 6), c.Pick(4, 10), a)
	c.Logf("stress: %d scenarios in %.1fs", len(a.results), time.Since(t0).Seconds())

	// hang candidates: the deadlock rule asks for reproduction with the same seed
	seenHang := map[string]bool{}
	for _, hr := range a.hangs {
		if !seenHang[hr.Hang.Signature] { // one confirmation per distinct set of blocked positions
			seenHang[hr.Hang.Signature] = true
			confirmHang(c, self, hr, "")
		}
	}
	if len(a.hangs) > 0 {
		c.Extra("hang_candidates", len(a.hangs))
	}
	defer hzWG.Wait()

	// ---------------- 4. TLC judges the recorded traces
	sort.Slice(a.results, func(i, j int) bool { return a.results[i].Scenario.ID < a.results[j].Scenario.ID })
	var toJudge []*Result
	for _, r := range a.results {
		if r.Err != "" {
			continue
		}
		c.Eval(1)
		a.calls += r.Calls
		for _, e := range r.Events {
			if e.Ev == "e" {
				a.resCount[e.Op+":"+e.Res]++
			}
		}
		if len(r.InFlightAtClose) > 0 {
			trig := r.Scenario.CloseAt
			if strings.HasPrefix(trig, "ops:") {
				trig = "ops"
			} else if i := strings.LastIndex(trig, ":"); i > 4 {
				trig = trig[:i]
			}
			uniq := map[string]bool{}
			for _, o := range r.InFlightAtClose {
				uniq[o] = true
			}
			var ops []string
			for o := range uniq {
				ops = append(ops, o)
			}
			sort.Strings(ops)
			c.Distinct(fmt.Sprintf("%s|%s|%s|%d", r.Scenario.Engine, trig, strings.Join(ops, ","), r.Scenario.Perturb))
		}
		if r.Slow {
			c.Logf("scenario %d was slow (watchdog fired, run completed after delays were released)", r.Scenario.ID)
		}
		if r.Hang == nil {
			toJudge = append(toJudge, r)
		}
	}
	// ---------------- 5. race detector (exploration), concurrently with the (single-threaded) trace validation
	var raceWG sync.WaitGroup
	raceWG.Add(1)
	go func() {
		defer raceWG.Done()
		if !devStress {
			runRace(c)
		}
	}()
	defer raceWG.Wait()

	if len(toJudge) == 0 && len(a.hangs) == 0 {
		return fmt.Errorf("no scenario produced a trace: %v", a.machine)
	}
	if len(toJudge) == 0 {
		c.Logf("every scenario that ran ended in a hang verdict; nothing else to validate")
	} else if err := judgeSelfTest(c, toJudge[0]); err != nil {
		// try another one before giving up (a scenario may have no post-Close lock call)
		ok := false
		for _, r := range toJudge[1:min(len(toJudge), 6)] {
			if judgeSelfTest(c, r) == nil {
				ok = true
				break
			}
		}
		if !ok {
			return err
		}
	}
	err := validateResults(c, toJudge, func(r *Result, inv string, ev Event) {
		what := fmt.Sprintf("TLC (TraceProto) rejects the recorded run of scenario %d [%s, close_at=%s, seed=%d]: invariant %s fails at event %s op=%s res=%s role=%s pt=%s",
			r.Scenario.ID, r.Scenario.Engine, r.Scenario.CloseAt, r.Scenario.Seed, inv, ev.Ev, ev.Op, ev.Res, ev.Role, ev.Pt)
		detail := map[string]any{"scenario": r.Scenario, "panics": r.Panics, "leaks": r.Leaks, "loop_panic": r.LoopPanic, "event": ev}
		sig := "contract:" + inv + ":" + ev.Op + ":" + ev.Res
		if inv == "NoLeakAfterClose" && len(r.Leaks) > 0 {
			sig = "contract:NoLeakAfterClose:" + leakClass(r.Leaks[0])
		}
		if inv == "LoopQuietAfterWait" || inv == "ReaderExcludesWriter" {
			sig = "contract:" + inv // which hook point trips it first varies from run to run
		}
		c.Violation(sig, what, detail)
	})
	if err != nil {
		return err
	}
	c.Logf("trace validation done at %.1fs", time.Since(t0).Seconds())

	raceWG.Wait()
	hzWG.Wait()
	c.Logf("hazards done at %.1fs", time.Since(t0).Seconds())
	if devStress {
		c.Inconclusive("VERIF_C11_DEV=stress: model, hazards and race detector skipped (development run)")
	}

	modelWG.Wait()

	// ---------------- evidence
	if len(a.machine) > 0 {
		c.Inconclusive("stress machinery: " + strings.Join(a.machine[:min(3, len(a.machine))], " | "))
	}
	c.Extra("scenarios", len(a.results))
	if a.skipped > 0 {
		c.Extra("scenarios_not_run_after_hang", a.skipped)
	}
	c.Extra("api_calls_judged", a.calls)
	c.Extra("results_by_op", a.resCount)
	var maxLat int64
	slow := 0
	asyncN := 0
	for _, r := range a.results {
		if r.MaxCancelLatencyUs > maxLat {
			maxLat = r.MaxCancelLatencyUs
		}
		if r.Slow {
			slow++
		}
		asyncN += len(r.AsyncErrs)
	}
	c.Extra("max_cancel_to_return_latency_us", maxLat)
	c.Extra("slow_scenarios", slow)
	c.Extra("async_errors_not_panic", asyncN)
	for _, r := range toJudge[:min(2, len(toJudge))] {
		evs := r.Events
		if len(evs) > 14 {
			evs = evs[:14]
		}
		c.Sample(map[string]any{"scenario": r.Scenario, "calls": r.Calls, "in_flight_at_close": r.InFlightAtClose, "first_events": evs})
	}
	return nil
}

func leakClass(s string) string {
	if i := strings.Index(s, ": "); i > 0 && strings.HasPrefix(s, "goroutine") {
		return "goroutine:" + s[i+2:]
	}
	if strings.HasPrefix(s, "fd") {
		return "fd"
	}
	if strings.HasPrefix(s, "mmap") {
		return "mmap"
	}
	return s
}

// confirmHang applies the last clause of the deadlock rule: the same seed
// must reproduce the hang (same blocked positions). fixedSig names a known
// hazard; "" uses the positions as signature.
func confirmHang(c *core.Ctx, bin string, hr *Result, fixedSig string, expectStuck ...string) {
	h := hr.Hang
	for _, want := range expectStuck {
		found := false
		for _, s := range h.StuckCalls {
			found = found || s == want
		}
		if !found {
			c.Inconclusive(fmt.Sprintf("scenario %d: watchdog fired but the expected call %q is not among the calls in flight %v", hr.Scenario.ID, want, h.StuckCalls))
			return
		}
	}
	if !(h.AllBlocked && h.Stable) {
		c.Inconclusive(fmt.Sprintf("scenario %d did not finish within the watchdog but the deadlock rule is not met (all_blocked=%v stable=%v): %v",
			hr.Scenario.ID, h.AllBlocked, h.Stable, h.Blocked))
		return
	}
	reproduced := false
	rsc := hr.Scenario
	if rsc.WatchdogS > 30 {
		// the run normally takes a second or two; whether the state it is stuck in is a deadlock
		// is decided by the two-sample rule, not by the length of the wait
		rsc.WatchdogS = 30
	}
	// a hang that depends on where the loops happen to be when Close arrives does not strike on
	// every run of the seed: several attempts (a run that does not hang takes a second or two)
	for try := 0; try < 10 && !reproduced; try++ {
		co := runChild(c, bin, []Scenario{rsc}, 15*time.Minute)
		if len(co.results) == 1 && co.results[0].Hang != nil {
			h2 := co.results[0].Hang
			if h2.AllBlocked && h2.Stable && h2.Signature == h.Signature {
				reproduced = true
			}
		}
	}
	if !reproduced {
		c.Inconclusive(fmt.Sprintf("scenario %d hung once (%s) but the same seed did not reproduce it", hr.Scenario.ID, h.Signature))
		return
	}
	// TLC judges the trace with the unreturned calls recorded as "hang"
	tf, err := c.ValidateTrace("TraceProto", "TraceProto.cfg", eventsAny(hr.Events))
	if err != nil {
		c.Inconclusive("TraceProto on hang trace: " + err.Error())
		return
	}
	if tf == nil || tf.Invariant != "NoPanicNoHang" {
		c.Inconclusive(fmt.Sprintf("hang trace of scenario %d was not rejected by NoPanicNoHang: %+v", hr.Scenario.ID, tf))
		return
	}
	sig := fixedSig
	if sig == "" {
		sig = h.Signature
	}
	c.Violation(sig, fmt.Sprintf("deadlock on the real code (scenario %d, %s, close_at=%s, seed=%d): calls %v never return; with all injected delays released every bleve goroutine is blocked in a channel/mutex operation, unchanged across two samples, reproduced with the same seed: %v",
		hr.Scenario.ID, hr.Scenario.Engine, hr.Scenario.CloseAt, hr.Scenario.Seed, h.StuckCalls, h.Blocked),
		map[string]any{"scenario": hr.Scenario, "hang": h})
}

// runHazards: for each hazard configuration, (1) TLC must find the expected
// counterexample in the model, (2) the counterexample's schedule is enacted
// on the real code, (3) the outcome is judged (deadlock rule / TraceProto).
func runHazards(c *core.Ctx, bin string) {
	type hz struct {
		name, cfg, want string
		pcs             []string
		engine          string
		sig             string
		stuck           []string
	}
	hzs := []hz{
		{"fd", "Proto_hz_fd.cfg", "<deadlock>", []string{"fdn_rl", "cl_acq"}, "disk", "fielddict-held-while-close-pending-recursive-rlock", []string{"doccount", "close"}},
		{"close2", "Proto_hz_close2.cfg", "NoPanic", []string{"panic"}, "disk", "second-close-panics-close-of-closed-channel", nil},
		{"fmmem", "Proto_hz_fmmem.cfg", "<deadlock>", []string{"fm_wait"}, "mem", "forcemerge-without-merger-loop-never-returns", []string{"forcemerge"}},
	}
	var wg sync.WaitGroup
	defer wg.Wait()
	for i, h := range hzs {
		i, h := i, h
		wg.Add(1)
		go func() {
			defer wg.Done()
			acts, ok := hazardModel(c, h.cfg, h.want, h.pcs)
			if !ok {
				return
			}
			engines := []string{h.engine}
			if h.name == "fd" {
				engines = []string{"disk", "ud"}
			}
			if h.name == "close2" {
				engines = []string{"disk", "mem", "ud"}
			}
			for j, eng := range engines {
				i, j, h, eng := i, j, h, eng
				wg.Add(1)
				go func() {
					defer wg.Done()
					// the handshake on goroutine states puts the run into the model's final state within
					// milliseconds; the watchdog only bounds how long the blocked state is then observed
					sc := Scenario{ID: 9000 + 10*i + j, Seed: c.Seed, Engine: eng, Workers: 2, Prepop: 50, Hazard: h.name, WatchdogS: 12}
					co := runChild(c, bin, []Scenario{sc}, 10*time.Minute)
					if co.err != nil || len(co.results) != 1 || co.results[0].Err != "" {
						c.Inconclusive(fmt.Sprintf("hazard %s/%s: child failed: %v %s", h.name, eng, co.err, tail(co.stderr, 800)))
						return
					}
					r := co.results[0]
					c.Eval(1)
					c.Extra("hazard_"+h.name+"_"+eng+"_model_schedule", acts)
					if r.Hang != nil {
						confirmHang(c, bin, r, h.sig+":"+engClass(eng))
						return
					}
					tf, err := c.ValidateTrace("TraceProto", "TraceProto.cfg", eventsAny(r.Events))
					if err != nil {
						c.Inconclusive("TraceProto on hazard trace: " + err.Error())
						return
					}
					c.Traces(1)
					if tf == nil {
						c.Logf("hazard %s on %s: the real code does not exhibit it (trace accepted)", h.name, eng)
						c.Extra("hazard_"+h.name+"_"+eng, "not exhibited by the real code")
						return
					}
					k := tf.Line - 2
					ev := Event{}
					if k >= 0 && k < len(r.Events) {
						ev = r.Events[k]
					}
					c.Violation(h.sig+":"+engClass(eng),
						fmt.Sprintf("hazard %s on the real code (%s): TLC (TraceProto) rejects the run, invariant %s at op=%s res=%s; schedule from TLC counterexample of %s: %v",
							h.name, eng, tf.Invariant, ev.Op, ev.Res, h.cfg, acts),
						map[string]any{"scenario": sc, "panics": r.Panics, "model_schedule": acts})
				}()
			}
		}()
	}
}

func engClass(e string) string {
	if e == "ud" || e == "udbolt" {
		return "upsidedown"
	}
	return "scorch"
}

// replay re-executes the scenario saved with a violation.
func replay(c *core.Ctx, path string) error {
	b, err := os.ReadFile(path)
	if err != nil {
		return err
	}
	var art struct {
		Signature string `json:"signature"`
		Replay    struct {
			Scenario Scenario `json:"scenario"`
		} `json:"replay"`
	}
	if err := json.Unmarshal(b, &art); err != nil {
		return err
	}
	sc := art.Replay.Scenario
	if sc.Engine == "" {
		return fmt.Errorf("replay artefact has no scenario")
	}
	co := runChild(c, core.SelfExe(), []Scenario{sc}, 20*time.Minute)
	if co.err != nil || len(co.results) != 1 {
		return fmt.Errorf("replay child failed: %v %s", co.err, tail(co.stderr, 500))
	}
	r := co.results[0]
	c.Eval(1)
	if r.Hang != nil {
		confirmHang(c, core.SelfExe(), r, strings.TrimSuffix(art.Signature, ""))
		return nil
	}
	return validateResults(c, []*Result{r}, func(r *Result, inv string, ev Event) {
		c.Violation(art.Signature, fmt.Sprintf("replay: TraceProto invariant %s fails at op=%s res=%s", inv, ev.Op, ev.Res), map[string]any{"scenario": sc, "panics": r.Panics})
	})
}

var _ = tlc.Run
