package c11

import (
	"context"
	"errors"
	"fmt"
	"sync/atomic"
	"time"

	bleve "github.com/blevesearch/bleve/v2"
	"github.com/blevesearch/bleve/v2/index/scorch"
	"github.com/blevesearch/bleve/v2/mapping"
	"github.com/blevesearch/bleve/v2/search"
	"github.com/blevesearch/bleve/v2/search/collector"
	"github.com/blevesearch/bleve/v2/search/query"
	index "github.com/blevesearch/bleve_index_api"

	"verif/harness/internal/core"
)

// The deterministic part of "a search whose context is cancelled returns an
// error promptly" (spec/CancelSearch.tla): the context is cancelled from inside
// the searcher, exactly when it has handed out `c` hits; TLC (JudgeCancel)
// judges how many more hits were pulled and how the call ended.

type cancelAtQuery struct {
	inner  query.Query
	at     int64 // the at-th Next cancels the context before it returns its hit
	cancel context.CancelFunc
	pulled int64
}

func (q *cancelAtQuery) Searcher(ctx context.Context, i index.IndexReader, m mapping.IndexMapping, options search.SearcherOptions) (search.Searcher, error) {
	s, err := q.inner.Searcher(ctx, i, m, options)
	if err != nil {
		return nil, err
	}
	return &cancelAtSearcher{Searcher: s, q: q}, nil
}

type cancelAtSearcher struct {
	search.Searcher
	q *cancelAtQuery
}

func (s *cancelAtSearcher) Next(ctx *search.SearchContext) (*search.DocumentMatch, error) {
	if atomic.LoadInt64(&s.q.pulled)+1 == s.q.at {
		s.q.cancel()
	}
	dm, err := s.Searcher.Next(ctx)
	if dm != nil {
		atomic.AddInt64(&s.q.pulled, 1)
	}
	return dm, err
}

func cancelMidCollection(c *core.Ctx) error {
	n := 2600
	k := int(collector.CheckDoneEvery)
	var recs []any
	type caseInfo struct {
		eng string
		at  int
	}
	var infos []caseInfo
	for _, eng := range []string{"scorch", "upsidedown"} {
		var idx bleve.Index
		var err error
		m := bleve.NewIndexMapping()
		if eng == "scorch" {
			idx, err = bleve.NewUsing("", m, scorch.Name, scorch.Name, nil)
		} else {
			idx, err = bleve.NewMemOnly(m)
		}
		if err != nil {
			return err
		}
		for lo := 0; lo < n; lo += 500 {
			b := idx.NewBatch()
			for d := lo; d < lo+500 && d < n; d++ {
				if err := b.Index(fmt.Sprintf("d%05d", d), map[string]interface{}{"t": "a"}); err != nil {
					return err
				}
			}
			if err := idx.Batch(b); err != nil {
				return err
			}
		}
		for _, at := range []int{1, 2, 700, k, k + 1, k + 2, 1500, 2 * k, n - k, n - k + 1, n - 5, n} {
			ctx, cancel := context.WithCancel(context.Background())
			q := &cancelAtQuery{inner: bleve.NewMatchAllQuery(), at: int64(at), cancel: cancel}
			req := bleve.NewSearchRequestOptions(q, 5, 0, false)
			done := make(chan error, 1)
			go func() { _, err := idx.SearchInContext(ctx, req); done <- err }()
			var serr error
			select {
			case serr = <-done:
			case <-time.After(60 * time.Second):
				cancel()
				c.Inconclusive(fmt.Sprintf("cancel-mid-collection: search on %s (cancel at hit %d) did not return in 60 s", eng, at))
				return nil
			}
			cancel()
			outcome := "ok"
			switch {
			case serr == nil:
			case errors.Is(serr, context.Canceled) || errors.Is(serr, context.DeadlineExceeded):
				outcome = "err"
			default:
				outcome = "other:" + serr.Error()
			}
			// the index is usable afterwards
			usable := false
			if res, err := idx.Search(bleve.NewSearchRequestOptions(bleve.NewMatchAllQuery(), 1, 0, false)); err == nil && int(res.Total) == n {
				usable = true
			}
			recs = append(recs, map[string]any{"n": n, "k": k, "c": at - 1, "pulled": int(atomic.LoadInt64(&q.pulled)), "outcome": outcome, "usable": usable})
			infos = append(infos, caseInfo{eng, at})
			c.Eval(1)
			c.Distinct(fmt.Sprintf("cancel|%s|%d", eng, at))
		}
		_ = idx.Close()
	}
	bad, err := c.JudgeRecords("JudgeCancel", "JudgeCancel.cfg", recs, 4, core.Timeout(5*time.Minute))
	if err != nil {
		return err
	}
	for i, inv := range bad {
		r := recs[i].(map[string]any)
		c.Violation(fmt.Sprintf("cancel-mid-collection:%s:%s", inv, infos[i].eng),
			fmt.Sprintf("%s: the search context was cancelled when the searcher had handed out %v of %v hits; the search pulled %v hits in all and ended with %q (index usable afterwards: %v); CancelSearch.tla allows at most %v more hits and no success once a check point has passed",
				infos[i].eng, r["c"], r["n"], r["pulled"], r["outcome"], r["usable"], r["k"]),
			map[string]any{"kind": "cancel-mid-collection", "engine": infos[i].eng, "record": r})
	}
	c.AddExtra("cancel_mid_collection_cases", int64(len(recs)))
	return nil
}
