module verif/harness

go 1.25.0

require github.com/blevesearch/bleve/v2 v2.0.0

replace github.com/blevesearch/bleve/v2 => /repo
