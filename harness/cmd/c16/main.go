package main

import (
	_ "verif/harness/internal/c16"
	"verif/harness/internal/core"
)

func main() { core.Main() }
