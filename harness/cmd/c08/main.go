package main

import (
	_ "verif/harness/internal/c08"
	"verif/harness/internal/core"
)

func main() { core.Main() }
