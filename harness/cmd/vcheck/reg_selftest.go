package main

import _ "verif/harness/internal/selftest"
