package main

import (
	_ "verif/harness/internal/c20"
	"verif/harness/internal/core"
)

func main() { core.Main() }
