package main

import (
	"verif/harness/internal/core"
	_ "verif/harness/internal/c10"
)

func main() { core.Main() }
