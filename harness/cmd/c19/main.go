package main

import (
	_ "verif/harness/internal/c19"
	"verif/harness/internal/core"
)

func main() { core.Main() }
