package main

import (
	_ "verif/harness/internal/c14"
	"verif/harness/internal/core"
)

func main() { core.Main() }
