package main

import (
	_ "verif/harness/internal/c05"
	"verif/harness/internal/core"
)

func main() { core.Main() }
