package main

import (
	_ "verif/harness/internal/c04"
	"verif/harness/internal/core"
)

func main() { core.Main() }
