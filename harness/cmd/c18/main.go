package main

import (
	_ "verif/harness/internal/c18"
	"verif/harness/internal/core"
)

func main() { core.Main() }
