package main

import (
	_ "verif/harness/internal/c12"
	"verif/harness/internal/core"
)

func main() { core.Main() }
