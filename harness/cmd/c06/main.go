package main

import (
	_ "verif/harness/internal/c06"
	"verif/harness/internal/core"
)

func main() { core.Main() }
