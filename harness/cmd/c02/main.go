package main

import (
	_ "verif/harness/internal/c02"
	"verif/harness/internal/core"
)

func main() { core.Main() }
