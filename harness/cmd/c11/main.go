package main

import (
	_ "verif/harness/internal/c11"
	"verif/harness/internal/core"
)

func main() { core.Main() }
