package main

import (
	_ "verif/harness/internal/c13"
	"verif/harness/internal/core"
)

func main() { core.Main() }
