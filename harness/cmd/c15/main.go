package main

import (
	_ "verif/harness/internal/c15"
	"verif/harness/internal/core"
)

func main() { core.Main() }
