package main

import (
	_ "verif/harness/internal/c17"
	"verif/harness/internal/core"
)

func main() { core.Main() }
