package main

import (
	"verif/harness/internal/core"
	_ "verif/harness/internal/selftest"
)

func main() { core.Main() }
