package main

import (
	"verif/harness/internal/core"
	_ "verif/harness/internal/sxdev"
)

func main() { core.Main() }
