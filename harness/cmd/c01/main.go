package main

import (
	_ "verif/harness/internal/c01"
	"verif/harness/internal/core"
)

func main() { core.Main() }
