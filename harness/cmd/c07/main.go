package main

import (
	_ "verif/harness/internal/c07"
	"verif/harness/internal/core"
)

func main() { core.Main() }
