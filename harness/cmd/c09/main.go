package main

import (
	"verif/harness/internal/core"
	_ "verif/harness/internal/c09"
)

func main() { core.Main() }
