package main

import (
	_ "verif/harness/internal/c03"
	"verif/harness/internal/core"
)

func main() { core.Main() }
